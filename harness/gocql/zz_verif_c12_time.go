package gocql

import "time"

const vDayMs = 86400000

func vNT(t Type) NativeType { return NativeType{proto: byte(vBound("proto")), typ: t} }

// date column from int64 milliseconds: uint32 2^31 + floor(ms/86400000)
func vh_date_int64() {
	ms := vI64("ms")
	vAssume(ms > -(1<<46) && ms < 1<<46)
	vWitness("pre1970-not-day-boundary", ms < 0 && ms%vDayMs != 0)
	data, err := Marshal(vNT(TypeDate), ms)
	day := refFloorDiv(ms, vDayMs)
	vAssert(err == nil && refBytesEq(data, refBE(day+(1<<31), 4)), "C12/date/int64/bytes")
	if err == nil {
		var back time.Time
		e2 := Unmarshal(vNT(TypeDate), data, &back)
		vAssert(e2 == nil && back.UnixMilli() == day*vDayMs, "C02/date/int64/roundtrip-day")
		vObserve("data", data)
	}
}

// date column from time.Time
func vh_date_time() {
	sec := vI64("sec")
	nsec := vI64("nsec")
	vAssume(sec > -(1<<36) && sec < 1<<36 && nsec >= 0 && nsec < 1000000000)
	t := time.Unix(sec, nsec)
	vAssume(!t.IsZero())
	vWitness("pre1970-not-day-boundary", sec < 0 && (sec%86400 != 0 || nsec >= 1000000))
	data, err := Marshal(vNT(TypeDate), t)
	day := refFloorDiv(sec, 86400)
	vAssert(err == nil && refBytesEq(data, refBE(day+(1<<31), 4)), "C12/date/time/bytes")
	if err == nil {
		var back time.Time
		e2 := Unmarshal(vNT(TypeDate), data, &back)
		vAssert(e2 == nil && back.Unix() == day*86400 && back.Nanosecond() == 0, "C02/date/time/roundtrip-day")
		vObserve("data", data)
	}
}

// date decode: every 4-byte value is a day
func vh_date_decode() {
	d := vU32("d")
	var back time.Time
	err := Unmarshal(vNT(TypeDate), refBE(int64(d), 4), &back)
	vAssert(err == nil && back.Unix() == (int64(d)-(1<<31))*86400 && back.Nanosecond() == 0, "C12/date/decode")
	vObserve("unix", back.Unix())
}

// timestamp: int64 milliseconds since epoch
func vh_timestamp_int64() {
	ms := vI64("ms")
	data, err := Marshal(vNT(TypeTimestamp), ms)
	vAssert(err == nil && refBytesEq(data, refBE(ms, 8)), "C12/timestamp/int64/bytes")
	var back int64
	e2 := Unmarshal(vNT(TypeTimestamp), data, &back)
	vAssert(e2 == nil && back == ms, "C02/timestamp/int64/roundtrip")
	vObserve("data", data)
}

// timestamp from time.Time: floor to milliseconds
func vh_timestamp_time() {
	sec := vI64("sec")
	nsec := vI64("nsec")
	vAssume(sec > -(1<<36) && sec < 1<<36 && nsec >= 0 && nsec < 1000000000)
	t := time.Unix(sec, nsec)
	vAssume(!t.IsZero())
	data, err := Marshal(vNT(TypeTimestamp), t)
	ms := sec*1000 + nsec/1000000
	vAssert(err == nil && refBytesEq(data, refBE(ms, 8)), "C12/timestamp/time/bytes")
	if err == nil {
		var back time.Time
		e2 := Unmarshal(vNT(TypeTimestamp), data, &back)
		vAssert(e2 == nil && back.Unix() == sec && int64(back.Nanosecond()) == (nsec/1000000)*1000000, "C02/timestamp/time/roundtrip-ms")
		vObserve("data", data)
	}
}

// timestamp decode into time.Time (also before 1970)
func vh_timestamp_decode() {
	ms := vI64("ms")
	vAssume(ms > -(1<<46) && ms < 1<<46)
	var back time.Time
	err := Unmarshal(vNT(TypeTimestamp), refBE(ms, 8), &back)
	vAssert(err == nil && back.UnixMilli() == ms && back.Nanosecond()%1000000 == 0, "C12/timestamp/decode-time")
	vObserve("unix", back.Unix())
}

// time column: int64 nanoseconds since midnight
func vh_time_int64() {
	ns := vI64("ns")
	data, err := Marshal(vNT(TypeTime), ns)
	vAssert(err == nil && refBytesEq(data, refBE(ns, 8)), "C12/time/int64/bytes")
	var back int64
	e2 := Unmarshal(vNT(TypeTime), data, &back)
	vAssert(e2 == nil && back == ns, "C02/time/int64/roundtrip")
	var bd time.Duration
	e3 := Unmarshal(vNT(TypeTime), data, &bd)
	vAssert(e3 == nil && int64(bd) == ns, "C02/time/int64/roundtrip-duration")
	vObserve("data", data)
}

func vh_time_duration() {
	ns := vI64("ns")
	data, err := Marshal(vNT(TypeTime), time.Duration(ns))
	vAssert(err == nil && refBytesEq(data, refBE(ns, 8)), "C12/time/duration/bytes")
	var bd time.Duration
	e3 := Unmarshal(vNT(TypeTime), data, &bd)
	vAssert(e3 == nil && int64(bd) == ns, "C02/time/duration/roundtrip")
	vObserve("data", data)
}

// duration column: three zig-zag vints (months, days, nanoseconds)
// vSmallVints restricts months/days to one-byte vints in the quick tier; every vint
// length of the single-vint kernels is covered by vh_vint_enc / vh_vint_dec.
// vint_small: 1 = months and days one-byte vints, 2 = only days, 3 = only months, 0 = neither restricted
// (all 5 x 5 x 9 length combinations in one run: does not finish for the struct cell, see DESIGN 13.6)
func vSmallVints(mo, d int32) {
	switch vBound("vint_small") {
	case 1:
		vAssume(mo >= -64 && mo <= 63 && d >= -64 && d <= 63)
	case 2:
		vAssume(d >= -64 && d <= 63)
	case 3:
		vAssume(mo >= -64 && mo <= 63)
	}
}

// the vint kernel itself, all int64 values, all nine lengths
func vh_vint_enc() {
	v := vI64("v")
	got := encVint(v)
	vAssert(refBytesEq(got, refVint(v)), "C12/vint/encode")
	vObserve("got", got)
}

func vh_vint_dec() {
	v := vI64("v")
	enc := refVint(v)
	got, next, err := decVint(enc, 0)
	vAssert(err == nil && got == v && next == len(enc), "C12/vint/decode")
	vObserve("next", next)
}

func vh_duration_struct() {
	d := Duration{Months: vI32("mo"), Days: vI32("d"), Nanoseconds: vI64("ns")}
	vSmallVints(d.Months, d.Days)
	data, err := Marshal(vNT(TypeDuration), d)
	want := refCat(refVint(int64(d.Months)), refVint(int64(d.Days)), refVint(d.Nanoseconds))
	vAssert(err == nil && refBytesEq(data, want), "C12/duration/struct/bytes")
	if err == nil {
		var back Duration
		e2 := Unmarshal(vNT(TypeDuration), data, &back)
		vAssert(e2 == nil && back == d, "C02/duration/struct/roundtrip")
		vObserve("data", data)
	}
}

func vh_duration_goduration() {
	ns := vI64("ns")
	data, err := Marshal(vNT(TypeDuration), time.Duration(ns))
	want := refCat(refVint(0), refVint(0), refVint(ns))
	vAssert(err == nil && refBytesEq(data, want), "C12/duration/time.Duration/bytes")
	if err == nil {
		var back Duration
		e2 := Unmarshal(vNT(TypeDuration), data, &back)
		vAssert(e2 == nil && back == Duration{Nanoseconds: ns}, "C02/duration/time.Duration/roundtrip")
		vObserve("data", data)
	}
}

func vh_duration_int64() {
	ns := vI64("ns")
	data, err := Marshal(vNT(TypeDuration), ns)
	want := refCat(refVint(0), refVint(0), refVint(ns))
	vAssert(err == nil && refBytesEq(data, want), "C12/duration/int64/bytes")
	vObserve("data", data)
}

type vNamedDur int64

// a named int64 type is documented for duration ("int64 | duration in nanoseconds")
func vh_duration_named_int64() {
	ns := vI64("ns")
	data, err := Marshal(vNT(TypeDuration), vNamedDur(ns))
	want := refCat(refVint(0), refVint(0), refVint(ns))
	vAssert(err != nil || refBytesEq(data, want), "C12/duration/named-int64/bytes")
	vObserve("len", len(data))
}

// duration decode: any three well-formed vints decode to their values
func vh_duration_decode() {
	mo, d, ns := vI32("mo"), vI32("d"), vI64("ns")
	vSmallVints(mo, d)
	var back Duration
	err := Unmarshal(vNT(TypeDuration), refCat(refVint(int64(mo)), refVint(int64(d)), refVint(ns)), &back)
	vAssert(err == nil && back == Duration{Months: mo, Days: d, Nanoseconds: ns}, "C12/duration/decode")
	vObserve("ns", back.Nanoseconds)
}

// date into a *string destination ("2006-01-02"): the days around the epoch and a few far ones, each a
// concrete day count (the text formatting is run concretely), the 4 bytes as the specification writes them
// (day 0 of the encoding is 2^31 days before 1970-01-01).
func vh_date_decode_string() {
	type sample struct {
		off  int64 // days relative to 1970-01-01
		text string
	}
	samples := []sample{{-1, "1969-12-31"}, {0, "1970-01-01"}, {1, "1970-01-02"}, {-365, "1969-01-01"}, {-25567, "1900-01-01"}, {19358, "2023-01-01"}, {-719162, "0001-01-01"}}
	s := samples[vChoose("day", len(samples))]
	var got string
	err := Unmarshal(vNT(TypeDate), refBE((1<<31)+s.off, 4), &got)
	vAssert(err == nil && got == s.text, "C12/date/decode-into-string")
	vObserve("got", got)
}
