package gocql

import (
	"context"

	"github.com/gocql/gocql/internal/streams"
)

// ---- C03: request frames are exactly what the CQL native protocol specifies ----
//
// vDec is an independent decoder written from the protocol specification (v1-v5 as this driver
// speaks v5: legacy framing, beta flag, v5 body layouts). It never looks at frame.go's writers.

type vDec struct {
	b   []byte
	pos int
	bad bool
}

func (d *vDec) need(n int) bool {
	if d.bad || n < 0 || d.pos+n > len(d.b) {
		d.bad = true
		return false
	}
	return true
}
func (d *vDec) u8() byte {
	if !d.need(1) {
		return 0
	}
	v := d.b[d.pos]
	d.pos++
	return v
}
func (d *vDec) u16() uint16 {
	if !d.need(2) {
		return 0
	}
	v := uint16(d.b[d.pos])<<8 | uint16(d.b[d.pos+1])
	d.pos += 2
	return v
}
func (d *vDec) i32() int32 {
	if !d.need(4) {
		return 0
	}
	v := int32(d.b[d.pos])<<24 | int32(d.b[d.pos+1])<<16 | int32(d.b[d.pos+2])<<8 | int32(d.b[d.pos+3])
	d.pos += 4
	return v
}
func (d *vDec) i64() int64 {
	hi := d.i32()
	lo := d.i32()
	return int64(hi)<<32 | int64(uint32(lo))
}
func (d *vDec) raw(n int) []byte {
	if !d.need(n) {
		return nil
	}
	v := d.b[d.pos : d.pos+n]
	d.pos += n
	return v
}
func (d *vDec) str() string     { return string(d.raw(int(d.u16()))) }
func (d *vDec) longStr() string { return string(d.raw(int(d.i32()))) }
func (d *vDec) shortBytes() []byte {
	return d.raw(int(d.u16()))
}

// value kinds of [bytes] / [value]
const (
	vkBytes = 0
	vkNull  = 1
	vkUnset = 2
)

// bytesV decodes [bytes]; allowUnset is true for bound values in v4+ where -2 means "not set".
func (d *vDec) bytesV(allowUnset bool) (int, []byte) {
	n := d.i32()
	if n >= 0 {
		return vkBytes, d.raw(int(n))
	}
	if n == -2 && allowUnset {
		return vkUnset, nil
	}
	if n == -1 || !allowUnset {
		// before v4 every negative length means null
		if n == -1 {
			return vkNull, nil
		}
		return vkNull, nil
	}
	d.bad = true
	return vkNull, nil
}

type vHeader struct {
	version, flags, op byte
	stream             int
	length             int
	body               []byte
	ok                 bool
}

func vDecodeHeader(frame []byte, ver byte) vHeader {
	var h vHeader
	hs := 9
	if ver < 3 {
		hs = 8
	}
	if len(frame) < hs {
		return h
	}
	h.version, h.flags = frame[0], frame[1]
	if ver < 3 {
		h.stream = int(int8(frame[2]))
		h.op = frame[3]
		h.length = int(int32(frame[4])<<24 | int32(frame[5])<<16 | int32(frame[6])<<8 | int32(frame[7]))
	} else {
		h.stream = int(int16(frame[2])<<8 | int16(frame[3]))
		h.op = frame[4]
		h.length = int(int32(frame[5])<<24 | int32(frame[6])<<16 | int32(frame[7])<<8 | int32(frame[8]))
	}
	h.body = frame[hs:]
	h.ok = true
	return h
}

type vVal struct {
	name string
	kind int
	data []byte
}

type vParams struct {
	cons      uint16
	flags     uint32
	values    []vVal
	pageSize  int32
	paging    []byte
	pagingSet bool
	serial    uint16
	ts        int64
	keyspace  string
}

// <query_parameters> per version (spec section 4.1.4)
func (d *vDec) params(ver byte) vParams {
	var p vParams
	p.cons = d.u16()
	if ver == 1 {
		return p
	}
	if ver >= 5 {
		p.flags = uint32(d.i32())
	} else {
		p.flags = uint32(d.u8())
	}
	if p.flags&0x01 != 0 {
		n := int(d.u16())
		for i := 0; i < n && !d.bad; i++ {
			var v vVal
			if p.flags&0x40 != 0 {
				v.name = d.str()
			}
			v.kind, v.data = d.bytesV(ver >= 4)
			p.values = append(p.values, v)
		}
	}
	if p.flags&0x04 != 0 {
		p.pageSize = d.i32()
	}
	if p.flags&0x08 != 0 {
		_, p.paging = d.bytesV(false)
		p.pagingSet = true
	}
	if p.flags&0x10 != 0 {
		p.serial = d.u16()
	}
	if p.flags&0x20 != 0 {
		p.ts = d.i64()
	}
	if p.flags&0x80 != 0 {
		p.keyspace = d.str()
	}
	return p
}

// ---- harness input builders ----

// vValues: the bound values as the application gives them (a []byte, nil, UnsetValue, each optionally wrapped
// in NamedValue) are turned into queryValues by the driver's own marshalQueryValue, exactly as
// Conn.executeQuery / executeBatch do; the logical request (want) is what the application asked for.
func vValues(n int, named bool) ([]queryValues, []vVal) {
	var qv []queryValues
	var want []vVal
	blob := NativeType{proto: 4, typ: TypeBlob}
	for i := 0; i < n; i++ {
		var q queryValues
		var w vVal
		var bound interface{}
		switch vChoose("valkind", 3) {
		case 0:
			val := vBytes("val", vBound("V"))
			_ = vConcrete(len(val))
			if val == nil {
				val = []byte{}
			}
			bound = val
			w.kind, w.data = vkBytes, val
		case 1:
			bound = nil
			w.kind = vkNull
		default:
			bound = UnsetValue
			w.kind = vkUnset
		}
		if named {
			w.name = vStringN("name", 1)
			bound = NamedValue(w.name, bound)
		}
		err := marshalQueryValue(blob, bound, &q)
		vAssert(err == nil, "C03/values/bound-value-is-marshalled")
		qv = append(qv, q)
		want = append(want, w)
	}
	return qv, want
}

func vSameVals(got, want []vVal, label string) {
	ok := len(got) == len(want)
	for i := 0; ok && i < len(want); i++ {
		ok = got[i].kind == want[i].kind && got[i].name == want[i].name && refBytesEq(got[i].data, want[i].data)
	}
	vAssert(ok, label)
}

// vBuild runs the builder and reports (frame, error-or-non-runtime-panic).
func vBuild(fb frameBuilder, ver byte, stream int, tracing bool) (frame []byte, refused bool) {
	f := newFramer(nil, ver)
	if tracing {
		f.trace()
	}
	defer func() {
		if r := recover(); r != nil {
			if _, isRT := r.(interface{ RuntimeError() }); isRT {
				panic(r)
			}
			frame, refused = nil, true
		}
	}()
	if err := fb.buildFrame(f, stream); err != nil {
		return nil, true
	}
	return f.buf, false
}

func vStream(ver byte) int {
	s := int(vI16("stream"))
	if ver < 3 {
		vAssume(s >= 0 && s < 128)
	} else {
		vAssume(s >= 0 && s < 32768)
	}
	return s
}

func vCheckHeader(h vHeader, ver byte, op byte, stream int, tracing bool, pay vPay) {
	vAssert(h.ok, "C03/header/present")
	if !h.ok {
		return
	}
	vAssert(h.version == ver, "C03/header/version-is-request-of-negotiated-version")
	want := byte(0)
	if tracing {
		want |= 0x02
	}
	if pay.n > 0 {
		want |= 0x04
	}
	if ver == 5 {
		want |= 0x10 // beta flag: v5 as this driver speaks it
	}
	if pay.n == 0 && ver >= 4 {
		// empty payload: announcing an empty map or announcing nothing are both well-formed
		vAssert(h.flags&^0x04 == want, "C03/header/flags")
	} else {
		vAssert(h.flags == want, "C03/header/flags")
	}
	vAssert(h.stream == stream, "C03/header/stream")
	vAssert(h.op == op, "C03/header/opcode")
	vAssert(h.length == len(h.body), "C03/header/length-equals-body")
}

// vPay is the custom payload asked for: n = -1 nil map, 0 non-nil map without entries, 1 one entry.
type vPay struct {
	m map[string][]byte
	n int
	k string
	v []byte
}

func vPayload(ver byte) vPay {
	switch vChoose("payload_kind", 3) {
	case 1:
		// a non-nil map without entries carries nothing: it is expressible in every version, either as
		// "no payload" (flag clear, no map) or as an announced empty map (flag set, count 0)
		return vPay{m: map[string][]byte{}, n: 0}
	case 2:
		if ver >= 4 {
			k := vStringN("pk", 1)
			v := vBytesN("pv", 1)
			return vPay{m: map[string][]byte{k: v}, n: 1, k: k, v: v}
		}
	}
	return vPay{n: -1}
}

// checkPayload decodes the [bytes map] exactly when the header announces it (flag 0x04), as a spec decoder does.
func (d *vDec) checkPayload(h vHeader, p vPay) {
	if h.flags&0x04 == 0 {
		vAssert(p.n <= 0, "C03/custom-payload")
		return
	}
	n := int(d.u16())
	if p.n <= 0 {
		vAssert(!d.bad && n == 0 && p.n == 0, "C03/custom-payload")
		return
	}
	gk := d.str()
	kind, gv := d.bytesV(false)
	vAssert(!d.bad && n == 1 && gk == p.k && kind == vkBytes && refBytesEq(gv, p.v), "C03/custom-payload")
}

func vQueryParams(ver byte, nvals int, named bool) (queryParams, vParams) {
	var q queryParams
	var w vParams
	q.consistency = Consistency(vU16("cons"))
	w.cons = uint16(q.consistency)
	if ver == 1 {
		return q, w
	}
	q.values, w.values = vValues(nvals, named)
	if len(q.values) > 0 {
		w.flags |= 0x01
		if named {
			w.flags |= 0x40
		}
	}
	if vBool("skip_meta") {
		q.skipMeta = true
		w.flags |= 0x02
	}
	if vBool("with_page_size") {
		q.pageSize = int(vI32("page_size"))
		vAssume(q.pageSize > 0)
		w.pageSize = int32(q.pageSize)
		w.flags |= 0x04
	}
	if vBool("with_paging_state") {
		q.pagingState = vBytesN("paging", vBound("V"))
		vAssume(len(q.pagingState) > 0)
		w.paging, w.pagingSet = q.pagingState, true
		w.flags |= 0x08
	}
	if vBool("with_serial") {
		q.serialConsistency = SerialConsistency(vU16("serial"))
		vAssume(q.serialConsistency > 0)
		w.serial = uint16(q.serialConsistency)
		w.flags |= 0x10
	}
	if ver >= 3 && vBool("with_timestamp") {
		q.defaultTimestamp = true
		q.defaultTimestampValue = vI64("ts")
		vAssume(q.defaultTimestampValue != 0) // 0 means "use time.Now()" in this API
		w.ts = q.defaultTimestampValue
		w.flags |= 0x20
	}
	if ver >= 5 && vBool("with_keyspace") {
		q.keyspace = vStringN("ks", 1)
		w.keyspace = q.keyspace
		w.flags |= 0x80
	}
	return q, w
}

func vCheckParams(d *vDec, ver byte, w vParams) {
	g := d.params(ver)
	vAssert(!d.bad, "C03/params/well-formed")
	vAssert(g.cons == w.cons, "C03/params/consistency")
	vAssert(g.flags == w.flags, "C03/params/flags")
	vSameVals(g.values, w.values, "C03/params/values-null-unset-named")
	vAssert(g.pageSize == w.pageSize, "C03/params/page-size")
	vAssert(g.pagingSet == w.pagingSet && refBytesEq(g.paging, w.paging), "C03/params/paging-state")
	vAssert(g.serial == w.serial, "C03/params/serial-consistency")
	vAssert(g.ts == w.ts, "C03/params/timestamp")
	vAssert(g.keyspace == w.keyspace, "C03/params/keyspace")
}

// expressible: named values need v3+, unset needs v4+
func vExpressible(ver byte, vals []vVal) bool {
	for _, v := range vals {
		if v.name != "" && ver < 3 {
			return false
		}
		if v.kind == vkUnset && ver < 4 {
			return false
		}
	}
	return true
}

// ---- entries ----

func vh_req_startup() {
	ver := byte(vBound("version"))
	stream := vStream(ver)
	k1, v1 := vStringN("k", 1), vStringN("v", vBound("S"))
	frame, refused := vBuild(&writeStartupFrame{opts: map[string]string{"CQL_VERSION": "3.0.0", k1: v1}}, ver, stream, false)
	vAssert(!refused, "C03/startup/built")
	if refused {
		return
	}
	h := vDecodeHeader(frame, ver)
	vCheckHeader(h, ver, 0x01, stream, false, vPay{n: -1})
	d := &vDec{b: h.body}
	n := int(d.u16())
	got := map[string]string{}
	for i := 0; i < n && !d.bad; i++ {
		k := d.str()
		got[k] = d.str()
	}
	vAssert(!d.bad && d.pos == len(d.b), "C03/startup/body-consumed-exactly")
	vAssert(n == 2 && got["CQL_VERSION"] == "3.0.0" && got[k1] == v1, "C03/startup/options")
	vObserve("len", len(frame))
}

func vh_req_options_register_auth() {
	ver := byte(vBound("version"))
	stream := vStream(ver)
	switch vChoose("kind", 3) {
	case 0:
		frame, refused := vBuild(&writeOptionsFrame{}, ver, stream, false)
		vAssert(!refused, "C03/options/built")
		h := vDecodeHeader(frame, ver)
		vCheckHeader(h, ver, 0x05, stream, false, vPay{n: -1})
		vAssert(len(h.body) == 0, "C03/options/empty-body")
	case 1:
		e1 := vStringN("ev", vBound("S"))
		frame, refused := vBuild(&writeRegisterFrame{events: []string{"TOPOLOGY_CHANGE", e1}}, ver, stream, false)
		vAssert(!refused, "C03/register/built")
		h := vDecodeHeader(frame, ver)
		vCheckHeader(h, ver, 0x0B, stream, false, vPay{n: -1})
		d := &vDec{b: h.body}
		n := d.u16()
		a, b := d.str(), d.str()
		vAssert(!d.bad && d.pos == len(d.b) && n == 2 && a == "TOPOLOGY_CHANGE" && b == e1, "C03/register/event-list")
	default:
		var data []byte
		wantKind := vkNull
		if !vBool("null_token") {
			data = vBytesN("tok", vBound("S"))
			if data == nil {
				data = []byte{}
			}
			wantKind = vkBytes
		}
		frame, refused := vBuild(&writeAuthResponseFrame{data: data}, ver, stream, false)
		vAssert(!refused, "C03/auth-response/built")
		h := vDecodeHeader(frame, ver)
		vCheckHeader(h, ver, 0x0F, stream, false, vPay{n: -1})
		d := &vDec{b: h.body}
		kind, got := d.bytesV(false)
		vAssert(!d.bad && d.pos == len(d.b) && kind == wantKind && refBytesEq(got, data), "C03/auth-response/token")
	}
}

func vh_req_query() {
	ver := byte(vBound("version"))
	stream := vStream(ver)
	tracing := vBool("tracing")
	stmt := vStringN("stmt", vBound("S"))
	pay := vPayload(ver)
	// QUERY frames carry no bound values in this driver (values are only sent with EXECUTE)
	q, w := vQueryParams(ver, 0, false)
	frame, refused := vBuild(&writeQueryFrame{statement: stmt, params: q, customPayload: pay.m}, ver, stream, tracing)
	vAssert(!refused || (pay.n == 0 && ver < 4), "C03/query/built") // refusing an empty payload before v4 is not a malformed frame
	if refused {
		return
	}
	h := vDecodeHeader(frame, ver)
	vCheckHeader(h, ver, 0x07, stream, tracing, pay)
	d := &vDec{b: h.body}
	d.checkPayload(h, pay)
	vAssert(d.longStr() == stmt && !d.bad, "C03/query/statement")
	vCheckParams(d, ver, w)
	vAssert(d.pos == len(d.b), "C03/query/body-consumed-exactly")
	vObserve("len", len(frame))
}

func vh_req_prepare() {
	ver := byte(vBound("version"))
	stream := vStream(ver)
	stmt := vStringN("stmt", vBound("S"))
	pay := vPayload(ver)
	ks := ""
	if vBool("with_keyspace") {
		ks = vStringN("ks", 1)
	}
	frame, refused := vBuild(&writePrepareFrame{statement: stmt, keyspace: ks, customPayload: pay.m}, ver, stream, false)
	if ks != "" && ver < 5 {
		vAssert(refused, "C03/prepare/keyspace-not-expressible-before-v5-is-refused")
		return
	}
	vAssert(!refused || (pay.n == 0 && ver < 4), "C03/prepare/built") // refusing an empty payload before v4 is not a malformed frame
	if refused {
		return
	}
	h := vDecodeHeader(frame, ver)
	vCheckHeader(h, ver, 0x09, stream, false, pay)
	d := &vDec{b: h.body}
	d.checkPayload(h, pay)
	vAssert(d.longStr() == stmt && !d.bad, "C03/prepare/statement")
	if ver >= 5 {
		fl := uint32(d.i32())
		gotKs := ""
		if fl&1 != 0 {
			gotKs = d.str()
		}
		vAssert(!d.bad && (fl&1 != 0) == (ks != "") && gotKs == ks && fl&^1 == 0, "C03/prepare/v5-flags-keyspace")
	}
	vAssert(d.pos == len(d.b), "C03/prepare/body-consumed-exactly")
	vObserve("len", len(frame))
}

func vh_req_execute() {
	ver := byte(vBound("version"))
	stream := vStream(ver)
	tracing := vBool("tracing")
	id := vBytesN("id", vBound("S"))
	pay := vPayload(ver)
	nvals := vBound("nvals")
	named := vBound("named") == 1
	var q queryParams
	var w vParams
	if ver == 1 {
		q.consistency = Consistency(vU16("cons"))
		w.cons = uint16(q.consistency)
		q.values, w.values = vValues(nvals, named)
	} else {
		q, w = vQueryParams(ver, nvals, named)
	}
	frame, refused := vBuild(&writeExecuteFrame{preparedID: id, params: q, customPayload: pay.m}, ver, stream, tracing)
	if !vExpressible(ver, w.values) {
		// named values before v3 / unset before v4 have no encoding: must not be sent as something else
		vWitness("named-before-v3", named && ver < 3)
		vWitness("unset-before-v4", ver < 4)
		vAssert(refused, "C03/execute/inexpressible-value-is-refused")
		return
	}
	vAssert(!refused || (pay.n == 0 && ver < 4), "C03/execute/built") // refusing an empty payload before v4 is not a malformed frame
	if refused {
		return
	}
	h := vDecodeHeader(frame, ver)
	vCheckHeader(h, ver, 0x0A, stream, tracing, pay)
	d := &vDec{b: h.body}
	d.checkPayload(h, pay)
	vAssert(refBytesEq(d.shortBytes(), id) && !d.bad, "C03/execute/prepared-id")
	if ver == 1 {
		n := int(d.u16())
		var got []vVal
		for i := 0; i < n && !d.bad; i++ {
			var v vVal
			v.kind, v.data = d.bytesV(false)
			got = append(got, v)
		}
		vSameVals(got, w.values, "C03/execute/v1-values")
		vAssert(d.u16() == w.cons && !d.bad, "C03/execute/v1-consistency")
	} else {
		vCheckParams(d, ver, w)
	}
	vAssert(d.pos == len(d.b), "C03/execute/body-consumed-exactly")
	vObserve("len", len(frame))
}

func vh_req_batch() {
	ver := byte(vBound("version"))
	vAssume(ver >= 2)
	stream := vStream(ver)
	pay := vPayload(ver)
	typ := BatchType(vU8("batch_type"))
	vAssume(typ <= 2)
	nst := vBound("nstmts")
	w := &writeBatchFrame{typ: typ, consistency: Consistency(vU16("cons")), customPayload: pay.m}
	type wantStmt struct {
		prepared bool
		stmt     string
		id       []byte
		vals     []vVal
	}
	var want []wantStmt
	anyNamed := false
	expressible := true
	for i := 0; i < nst; i++ {
		var b batchStatment
		var ws wantStmt
		if vBool("prepared") {
			b.preparedID = vBytesN("id", 1)
			ws.prepared, ws.id = true, b.preparedID
		} else {
			b.statement = vStringN("stmt", vBound("S"))
			ws.stmt = b.statement
		}
		named := vBound("named") == 1
		b.values, ws.vals = vValues(vBound("nvals"), named)
		if named && len(b.values) > 0 {
			anyNamed = true
		}
		if !vExpressible(ver, ws.vals) {
			expressible = false
		}
		w.statements = append(w.statements, b)
		want = append(want, ws)
	}
	var wantFlags uint32
	if ver >= 3 {
		if vBool("with_serial") {
			w.serialConsistency = SerialConsistency(vU16("serial"))
			vAssume(w.serialConsistency > 0)
			wantFlags |= 0x10
		}
		if vBool("with_timestamp") {
			w.defaultTimestamp = true
			w.defaultTimestampValue = vI64("ts")
			vAssume(w.defaultTimestampValue != 0)
			wantFlags |= 0x20
		}
	}
	frame, refused := vBuild(w, ver, stream, false)
	if anyNamed || !expressible {
		// named values in BATCH are not supported by any server version (CASSANDRA-10246)
		vWitness("named-before-v3", anyNamed && ver < 3)
		vWitness("unset-before-v4", !anyNamed && ver < 4)
		vAssert(refused, "C03/batch/inexpressible-value-is-refused")
		return
	}
	vAssert(!refused || (pay.n == 0 && ver < 4), "C03/batch/built") // refusing an empty payload before v4 is not a malformed frame
	if refused {
		return
	}
	h := vDecodeHeader(frame, ver)
	vCheckHeader(h, ver, 0x0D, stream, false, pay)
	d := &vDec{b: h.body}
	d.checkPayload(h, pay)
	vAssert(d.u8() == byte(typ), "C03/batch/type")
	n := int(d.u16())
	vAssert(n == nst, "C03/batch/statement-count")
	for i := 0; i < n && i < nst && !d.bad; i++ {
		kind := d.u8()
		if want[i].prepared {
			vAssert(kind == 1 && refBytesEq(d.shortBytes(), want[i].id), "C03/batch/prepared-entry")
		} else {
			vAssert(kind == 0 && d.longStr() == want[i].stmt, "C03/batch/query-entry")
		}
		m := int(d.u16())
		var got []vVal
		for j := 0; j < m && !d.bad; j++ {
			var v vVal
			v.kind, v.data = d.bytesV(ver >= 4)
			got = append(got, v)
		}
		vSameVals(got, want[i].vals, "C03/batch/values")
	}
	vAssert(d.u16() == uint16(w.consistency) && !d.bad, "C03/batch/consistency")
	if ver >= 3 {
		var fl uint32
		if ver >= 5 {
			fl = uint32(d.i32())
		} else {
			fl = uint32(d.u8())
		}
		vAssert(fl == wantFlags, "C03/batch/flags")
		if fl&0x10 != 0 {
			vAssert(d.u16() == uint16(w.serialConsistency), "C03/batch/serial-consistency")
		}
		if fl&0x20 != 0 {
			vAssert(d.i64() == w.defaultTimestampValue, "C03/batch/timestamp")
		}
	}
	vAssert(!d.bad && d.pos == len(d.b), "C03/batch/body-consumed-exactly")
	vObserve("len", len(frame))
}

// ---- a sequence of requests on ONE connection, through Conn.exec ----
//
// The bytes handed to the connection writer by consecutive requests: each frame carries exactly the
// header flags and body ITS request asked for, whatever the previous request on that connection was
// (tracing, custom payload). The writer stub plays the server's answer (recv unregisters the call and
// delivers a response), so exec returns and the next request runs on the same Conn.
type vSeqWriter struct{}

var vSeqFrames [][]byte

func (vSeqWriter) writeContext(ctx context.Context, p []byte) (int, error) {
	vSeqFrames = append(vSeqFrames, append([]byte(nil), p...))
	h := vDecodeHeader(p, vConn.version)
	if call, ok := vConn.calls[h.stream]; ok && call != nil {
		delete(vConn.calls, h.stream)
		vChanPush(call.resp, callResp{framer: &framer{header: &frameHeader{version: protoVersion(vConn.version | 0x80)}}})
	}
	return len(p), nil
}

type vNopTracer struct{}

func (vNopTracer) Trace(traceId []byte) {}

func vh_exec_sequence() {
	ver := byte(vBound("version"))
	c := &Conn{version: ver, streams: streams.New(int(ver)), calls: map[int]*callReq{}, w: vSeqWriter{}, logger: vNopLogger{}, errorHandler: vErrHandler{}, conn: &vNetConn{}}
	c.ctx = &vCtx{done: make(chan struct{})}
	c.cancel = func() {}
	vConn = c
	vSeqFrames = nil
	type asked struct {
		stmt    string
		tracing bool
		pay     vPay
		prepare bool
	}
	var reqs []asked
	for i := 0; i < 2; i++ {
		a := asked{stmt: vStringN("stmt", 1), tracing: vBool("tracing"), pay: vPayload(ver), prepare: vBool("is_prepare")}
		reqs = append(reqs, a)
		var fb frameBuilder
		if a.prepare {
			fb = &writePrepareFrame{statement: a.stmt, customPayload: a.pay.m}
		} else {
			fb = &writeQueryFrame{statement: a.stmt, params: queryParams{consistency: One}, customPayload: a.pay.m}
		}
		var tr Tracer
		if a.tracing {
			tr = vNopTracer{}
		}
		ctx := &vCtx{done: make(chan struct{})}
		f, err := c.exec(ctx, fb, tr)
		if a.pay.n == 0 && ver < 4 && err != nil {
			reqs = reqs[:len(reqs)-1] // an empty payload map before v4 may be refused (nothing is sent)
			continue
		}
		vAssert(err == nil && f != nil, "C03/sequence/request-is-sent-and-answered")
	}
	vAssert(len(vSeqFrames) == len(reqs), "C03/sequence/one-frame-per-request")
	for i := 0; i < len(reqs) && i < len(vSeqFrames); i++ {
		a := reqs[i]
		h := vDecodeHeader(vSeqFrames[i], ver)
		op := byte(0x07)
		if a.prepare {
			op = 0x09
		}
		vCheckHeader(h, ver, op, h.stream, a.tracing, a.pay)
		vAssert(h.stream >= 0 && h.stream < c.streams.NumStreams, "C03/header/stream")
		d := &vDec{b: h.body}
		d.checkPayload(h, a.pay)
		vAssert(d.longStr() == a.stmt && !d.bad, "C03/sequence/statement-of-this-request")
	}
	vObserve("frames", len(vSeqFrames))
}
