package gocql

// ---- C16 / C05: rows of system.local / system.peers turned into hosts ----
//
// getClusterPeerInfo feeds every peers row through hostInfoFromMap and keeps it iff isValidPeer. The row
// is what the server sent (decoded by the driver into the Go types it chose itself: string, UUID, int,
// []string), so every column may be present or absent and every address column may hold a usable
// address, the unspecified address, or text that is no address. Asserted: building the host never
// panics (it runs in the ring-refresh goroutine), an accepted peer carries the row's values and has an
// address the driver can connect to, and a row lacking any of the required columns is not accepted.

func vAddrText(name string) (string, bool) {
	switch vChoose(name, 4) {
	case 0:
		return "", false // column absent (null)
	case 1:
		return "10.0.0.7", true
	case 2:
		return "0.0.0.0", true
	}
	return "not-an-address", true
}

func vh_peer_row() {
	row := map[string]interface{}{}
	peer, hasPeer := vAddrText("peer")
	if hasPeer {
		row["peer"] = peer
	}
	rpc, hasRPC := vAddrText("rpc_address")
	if hasRPC {
		row["rpc_address"] = rpc
	}
	hasID, hasDC, hasRack, hasTokens := vBool("host_id"), vBool("data_center"), vBool("rack"), vBool("tokens")
	id := UUID{0x11, 0x22, 0x33, 0x44, 0x55, 0x66, 0x47, 0x88, 0x89, 0xaa, 0xbb, 0xcc, 0xdd, 0xee, 0xff, 0x01}
	if hasID {
		row["host_id"] = id
	}
	if hasDC {
		row["data_center"] = "dc1"
	}
	if hasRack {
		row["rack"] = "r1"
	}
	if hasTokens {
		row["tokens"] = []string{"1"}
	}
	s := &Session{logger: vNopLogger{}}
	s.cfg.Port = 9042
	host, err := s.hostInfoFromMap(row, &HostInfo{port: s.cfg.Port})
	if err != nil {
		vAssert(host == nil, "C16/peers/row-error-gives-no-host")
		return
	}
	vAssert(host != nil, "C16/peers/host-or-error")
	if host == nil {
		return
	}
	if isValidPeer(host) {
		vAssert(hasID && hasDC && hasRack && hasTokens && hasRPC, "C16/peers/only-complete-rows-are-valid-peers")
		vAssert(host.hostId == id.String() && host.dataCenter == "dc1" && host.rack == "r1" && host.port == 9042, "C16/peers/host-carries-the-rows-values")
		// an accepted peer must be connectable: ConnectAddress() panics when the host has no usable address
		addr := host.ConnectAddress()
		vAssert(validIpAddr(addr), "C16/peers/accepted-peer-has-a-usable-address")
	}
	vObserve("valid", isValidPeer(host))
}
