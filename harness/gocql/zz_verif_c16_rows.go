package gocql

import (
	"net"
	"time"
)

// ---- C16 / C05: rows of system.local / system.peers turned into hosts ----
//
// getClusterPeerInfo feeds every peers row through hostInfoFromMap and keeps it iff isValidPeer. The row
// is what the server sent (decoded by the driver into the Go types it chose itself: string, UUID, int,
// []string), so every column may be present or absent and every address column may hold a usable
// address, the unspecified address, or text that is no address. Asserted: building the host never
// panics (it runs in the ring-refresh goroutine), an accepted peer carries the row's values and has an
// address the driver can connect to, and a row lacking any of the required columns is not accepted.

func vAddrText(name string) (string, bool) {
	switch vChoose(name, 4) {
	case 0:
		return "", false // column absent (null)
	case 1:
		return "10.0.0.7", true
	case 2:
		return "0.0.0.0", true
	}
	return "not-an-address", true
}

func vh_peer_row() {
	row := map[string]interface{}{}
	peer, hasPeer := vAddrText("peer")
	if hasPeer {
		row["peer"] = peer
	}
	rpc, hasRPC := vAddrText("rpc_address")
	if hasRPC {
		row["rpc_address"] = rpc
	}
	hasID, hasDC, hasRack, hasTokens := vBool("host_id"), vBool("data_center"), vBool("rack"), vBool("tokens")
	id := UUID{0x11, 0x22, 0x33, 0x44, 0x55, 0x66, 0x47, 0x88, 0x89, 0xaa, 0xbb, 0xcc, 0xdd, 0xee, 0xff, 0x01}
	if hasID {
		row["host_id"] = id
	}
	if hasDC {
		row["data_center"] = "dc1"
	}
	if hasRack {
		row["rack"] = "r1"
	}
	if hasTokens {
		row["tokens"] = []string{"1"}
	}
	s := &Session{logger: vNopLogger{}}
	s.cfg.Port = 9042
	host, err := s.hostInfoFromMap(row, &HostInfo{port: s.cfg.Port})
	if err != nil {
		vAssert(host == nil, "C16/peers/row-error-gives-no-host")
		return
	}
	vAssert(host != nil, "C16/peers/host-or-error")
	if host == nil {
		return
	}
	if isValidPeer(host) {
		vAssert(hasID && hasDC && hasRack && hasTokens && hasRPC, "C16/peers/only-complete-rows-are-valid-peers")
		vAssert(host.hostId == id.String() && host.dataCenter == "dc1" && host.rack == "r1" && host.port == 9042, "C16/peers/host-carries-the-rows-values")
		// an accepted peer must be connectable: ConnectAddress() panics when the host has no usable address
		addr := host.ConnectAddress()
		vAssert(validIpAddr(addr), "C16/peers/accepted-peer-has-a-usable-address")
	}
	vObserve("valid", isValidPeer(host))
}

// ---- the event debouncer: every event is handed to the handler exactly once, in order ----
//
// The handler runs in its own goroutine; with spec defer_go it runs as late as possible, i.e. after the
// debouncer has already taken further events and flushed again. What it sees must still be the batch
// that was flushed to it.
var vBatches [][]frame

func vDebounceHandler(fs []frame) {
	vBatches = append(vBatches, append([]frame(nil), fs...))
}

func vstubTimerResetNop(t *time.Timer, d time.Duration) bool { return true }

func vh_event_debouncer_batches() {
	vBatches = nil
	e := &eventDebouncer{quit: make(chan struct{}), timer: &time.Timer{}, callback: vDebounceHandler, logger: vNopLogger{}}
	ev := []frame{
		&statusChangeEventFrame{change: "UP", host: net.IPv4(10, 0, 0, 1), port: 9042},
		&statusChangeEventFrame{change: "DOWN", host: net.IPv4(10, 0, 0, 2), port: 9042},
		&topologyChangeEventFrame{change: "NEW_NODE", host: net.IPv4(10, 0, 0, 3), port: 9042},
		&statusChangeEventFrame{change: "UP", host: net.IPv4(10, 0, 0, 2), port: 9042},
	}
	n := 1 + vChoose("events", len(ev))
	var want [][]frame
	var cur []frame
	for i := 0; i < n; i++ {
		e.debounce(ev[i])
		cur = append(cur, ev[i])
		if vBool("timer_fires_after_this_event") || i == n-1 {
			e.mu.Lock()
			e.flush()
			e.mu.Unlock()
			want = append(want, cur)
			cur = nil
			if vBool("handler_runs_now") {
				vRunPending()
			}
		}
	}
	// a flush with nothing buffered starts no handler
	e.mu.Lock()
	e.flush()
	e.mu.Unlock()
	vRunPending()
	vAssert(vEventCount("go:") == len(want), "C16/debouncer/one-handler-call-per-non-empty-flush")
	ok := len(vBatches) == len(want)
	for i := 0; ok && i < len(want); i++ {
		ok = len(vBatches[i]) == len(want[i])
		for j := 0; ok && j < len(want[i]); j++ {
			ok = vBatches[i][j] == want[i][j]
		}
	}
	vAssert(ok, "C16/debouncer/each-handler-sees-exactly-the-batch-flushed-to-it")
	vObserve("batches", len(vBatches))
}
