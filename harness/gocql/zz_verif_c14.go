package gocql

import (
	"context"
	"sync"

	"github.com/gocql/gocql/internal/lru"
)

// ---- C14: prepared statements: prepared once, failures not cached, re-prepared when lost ----

type vExecCall struct {
	prepare *writePrepareFrame
	execute *writeExecuteFrame
	other   frameBuilder
}

var (
	vExecLog      []vExecCall
	vPrepareIDs   [][]byte // ids successive PREPARE requests are answered with
	vPrepareKind  []int    // 0 prepared, 1 io error, 2 ERROR frame, 3 unexpected frame
	vExecuteReply []frame  // replies to successive EXECUTE requests (nil = void result)
)

func vFramerWith(c *Conn, op frameOp, body []byte) *framer {
	hs := 9
	if c.version < 3 {
		hs = 8
	}
	return &framer{proto: c.version, headSize: hs, header: &frameHeader{version: protoVersion(c.version | 0x80), op: op, length: len(body)}, buf: body}
}

// vstubConnExec replaces (*Conn).exec: a scripted server.
func vstubConnExec(c *Conn, ctx context.Context, req frameBuilder, tracer Tracer) (*framer, error) {
	switch r := req.(type) {
	case *writePrepareFrame:
		vExecLog = append(vExecLog, vExecCall{prepare: r})
		if len(vPrepareKind) == 0 {
			return nil, vErrIO
		}
		kind, id := vPrepareKind[0], vPrepareIDs[0]
		vPrepareKind, vPrepareIDs = vPrepareKind[1:], vPrepareIDs[1:]
		e := &vEnc{}
		switch kind {
		case 0:
			e.i32(4)
			e.shortBytes(id)
			e.meta(vMeta{}, true, c.version, nil)
			if c.version >= 2 {
				e.meta(vMeta{}, false, c.version, nil)
			}
			return vFramerWith(c, opResult, e.b), nil
		case 1:
			return nil, vErrIO
		case 2:
			e.i32(0x2200)
			e.str("bad")
			return vFramerWith(c, opError, e.b), nil
		}
		return vFramerWith(c, opReady, nil), nil
	case *writeExecuteFrame:
		vExecLog = append(vExecLog, vExecCall{execute: r})
		if len(vExecuteReply) == 0 {
			return nil, vErrIO
		}
		rep := vExecuteReply[0]
		vExecuteReply = vExecuteReply[1:]
		e := &vEnc{}
		if u, ok := rep.(*RequestErrUnprepared); ok {
			e.i32(0x2500)
			e.str("unprepared")
			e.shortBytes(u.StatementId)
			return vFramerWith(c, opError, e.b), nil
		}
		e.i32(1)
		return vFramerWith(c, opResult, e.b), nil
	}
	vExecLog = append(vExecLog, vExecCall{other: req})
	return nil, vErrIO
}

func vConnWithCache(size int) *Conn {
	s := &Session{stmtsLRU: &preparedLRU{lru: lru.New(size)}, logger: vNopLogger{}}
	c := &Conn{session: s, host: &HostInfo{hostId: "00000000-0000-0000-0000-000000000001"}, version: byte(vBound("version")), currentKeyspace: "ks", ctx: context.Background(), logger: vNopLogger{}}
	vExecLog, vPrepareIDs, vPrepareKind, vExecuteReply = nil, nil, nil, nil
	return c
}

func vCallerCtx() *vCtx {
	ctx := &vCtx{done: make(chan struct{})}
	if vBool("caller_cancelled") {
		close(ctx.done)
		ctx.err = context.Canceled
	}
	return ctx
}

// environment step at every acquisition of the cache lock: whatever the cache holds now is what another
// executor looking the statement up at this moment finds. A finished, failed PREPARE must never be there
// (it would be reported to someone who was not waiting on it, and no new PREPARE would be sent).
var (
	vLRU           *preparedLRU
	vLRUKey        string
	vFailedVisible bool
)

func vOnLockPrepared(mu *sync.Mutex) {
	if vLRU == nil || mu != &vLRU.mu {
		return
	}
	if v, ok := vLRU.lru.Get(vLRUKey); ok {
		fl := v.(*inflightPrepare)
		if vIsClosed(fl.done) && fl.err != nil {
			vFailedVisible = true
		}
	}
}

func vh_prepare_outcomes() {
	c := vConnWithCache(2)
	vLRU, vFailedVisible = c.session.stmtsLRU, false
	vLRUKey = vLRU.keyFor(c.host.HostID(), c.currentKeyspace, "SELECT a")
	kind := vChoose("prepare_answer", 4)
	id := vBytesN("id", 2)
	vSecondID = vBytesN("id2", 2)
	vPrepareKind, vPrepareIDs = []int{kind, 0}, [][]byte{id, vSecondID}
	ctx := vCallerCtx()
	st, err := c.prepareStatement(ctx, "SELECT a", nil)
	vAssert(len(vExecLog) == 1 && vExecLog[0].prepare != nil && vExecLog[0].prepare.statement == "SELECT a", "C14/prepare/one-prepare-of-that-statement")
	if len(vExecLog) == 1 && vExecLog[0].prepare != nil {
		vAssert((vExecLog[0].prepare.keyspace == "ks") == (c.version > 4), "C14/prepare/keyspace-only-from-v5")
	}
	cache := c.session.stmtsLRU.lru
	if kind == 0 {
		vAssert(cache.Len() == 1, "C14/prepare/success-is-cached")
		if ctx.err == nil {
			vAssert(err == nil && st != nil && refBytesEq(st.id, id), "C14/prepare/caller-gets-the-id-the-server-returned")
		} else {
			vAssert(err != nil || (st != nil && refBytesEq(st.id, id)), "C14/prepare/cancelled-caller-gets-its-error-or-the-result")
		}
		// a later execution of the same statement reuses it without a second PREPARE
		st2, err2 := c.prepareStatement(&vCtx{done: make(chan struct{})}, "SELECT a", nil)
		vAssert(len(vExecLog) == 1 && err2 == nil && st2 != nil && refBytesEq(st2.id, id), "C14/prepare/prepared-once")
	} else {
		vAssert(err != nil && st == nil, "C14/prepare/failure-reported")
		vAssert(cache.Len() == 0, "C14/prepare/failure-not-remembered")
		vAssert(!vFailedVisible, "C14/prepare/a-finished-failed-prepare-is-never-visible-in-the-cache")
		st2, err2 := c.prepareStatement(&vCtx{done: make(chan struct{})}, "SELECT a", nil)
		vAssert(len(vExecLog) == 2 && err2 == nil && st2 != nil && refBytesEq(st2.id, vPrepareIDs2()), "C14/prepare/prepared-again-after-a-failure")
	}
	vObserve("calls", len(vExecLog))
}

var vSecondID []byte

func vPrepareIDs2() []byte { return vSecondID }

// a concurrent executor that finds the entry in flight waits for it and never sends its own PREPARE
func vh_prepare_waiter() {
	c := vConnWithCache(2)
	key := c.session.stmtsLRU.keyFor(c.host.HostID(), c.currentKeyspace, "SELECT a")
	fl := &inflightPrepare{done: make(chan struct{})}
	finished := vBool("flight_finished")
	failed := vBool("flight_failed")
	id := vBytesN("id", 2)
	if finished {
		if failed {
			fl.err = vErrIO
		} else {
			fl.preparedStatment = &preparedStatment{id: id}
		}
		close(fl.done)
	}
	c.session.stmtsLRU.add(key, fl)
	ctx := vCallerCtx()
	vAssume(finished || ctx.err != nil) // otherwise the waiter legitimately waits
	st, err := c.prepareStatement(ctx, "SELECT a", nil)
	vAssert(len(vExecLog) == 0, "C14/waiter/no-second-prepare")
	if ctx.err == nil {
		if failed {
			vAssert(err != nil && st == nil, "C14/waiter/failure-reported-to-everyone-waiting")
		} else {
			vAssert(err == nil && st != nil && refBytesEq(st.id, id), "C14/waiter/gets-the-flights-id")
		}
	}
	vObserve("err", err != nil)
}

func vh_evict() {
	c := vConnWithCache(2)
	lruc := c.session.stmtsLRU
	key := lruc.keyFor(c.host.HostID(), c.currentKeyspace, "SELECT a")
	fl := &inflightPrepare{done: make(chan struct{})}
	done := vBool("done")
	cached := vBytesN("cached_id", 2)
	if done {
		fl.preparedStatment = &preparedStatment{id: cached}
		close(fl.done)
	}
	lruc.add(key, fl)
	other := lruc.keyFor(c.host.HostID(), "ks2", "SELECT a")
	lruc.add(other, &inflightPrepare{done: make(chan struct{})})
	lost := vBytesN("lost_id", 2)
	lruc.evictPreparedID(key, lost)
	_, still := lruc.lru.Get(key)
	vAssert(still == !(done && refBytesEq(lost, cached)), "C14/evict/only-a-finished-entry-with-that-id")
	_, otherStill := lruc.lru.Get(other)
	vAssert(otherStill, "C14/evict/other-keyspace-untouched")
	vObserve("still", still)
}

// UNPREPARED: prepare again and execute with the NEW id
func vh_unprepared_reprepare() {
	c := vConnWithCache(2)
	c.session.cfg.DisableSkipMetadata = true
	key := c.session.stmtsLRU.keyFor(c.host.HostID(), c.currentKeyspace, "SELECT a")
	id0 := vBytesN("id0", 2)
	fl := &inflightPrepare{done: make(chan struct{}), preparedStatment: &preparedStatment{id: id0}}
	close(fl.done)
	c.session.stmtsLRU.add(key, fl)
	id1 := vBytesN("id1", 2)
	vPrepareKind, vPrepareIDs = []int{0}, [][]byte{id1}
	vExecuteReply = []frame{&RequestErrUnprepared{StatementId: id0}, nil}
	q := &Query{stmt: "SELECT a", session: c.session, routingInfo: &queryRoutingInfo{}, context: context.Background()}
	iter := c.executeQuery(&vCtx{done: make(chan struct{})}, q)
	vAssert(iter != nil && iter.err == nil, "C14/unprepared/query-still-succeeds")
	ok := len(vExecLog) == 3 && vExecLog[0].execute != nil && vExecLog[1].prepare != nil && vExecLog[2].execute != nil
	vAssert(ok, "C14/unprepared/execute-prepare-execute")
	if ok {
		vAssert(refBytesEq(vExecLog[0].execute.preparedID, id0), "C14/unprepared/first-execute-uses-cached-id")
		vAssert(vExecLog[1].prepare.statement == "SELECT a", "C14/unprepared/re-prepares-the-same-statement")
		vAssert(refBytesEq(vExecLog[2].execute.preparedID, id1), "C14/unprepared/second-execute-uses-the-new-id")
	}
	vObserve("calls", len(vExecLog))
}

// a wrong number of bound values is an error and nothing is sent
func vh_value_count() {
	c := vConnWithCache(2)
	c.session.cfg.DisableSkipMetadata = true
	key := c.session.stmtsLRU.keyFor(c.host.HostID(), c.currentKeyspace, "SELECT a")
	ncols := vChoose("bind_columns", 3)
	cols := make([]ColumnInfo, ncols)
	for i := range cols {
		cols[i] = ColumnInfo{Name: "c", TypeInfo: NativeType{proto: c.version, typ: TypeInt}}
	}
	// one of the bind markers may be of a tuple type: it still takes ONE bound value (the tuple). The request
	// metadata is filled in the way parsePreparedMetadata / readCol fill it (actualColCount counts the tuple's
	// elements, as for result columns that Scan expands).
	actual := ncols
	tupleAt := -1
	if ncols > 0 && vBool("a_tuple_bind_marker") {
		tupleAt = vChoose("tuple_at", ncols)
		cols[tupleAt].TypeInfo = TupleTypeInfo{NativeType: NativeType{proto: c.version, typ: TypeTuple},
			Elems: []TypeInfo{NativeType{proto: c.version, typ: TypeInt}, NativeType{proto: c.version, typ: TypeInt}}}
		actual++
	}
	fl := &inflightPrepare{done: make(chan struct{}), preparedStatment: &preparedStatment{id: []byte{1}}}
	fl.preparedStatment.request.columns = cols
	fl.preparedStatment.request.colCount = ncols
	fl.preparedStatment.request.actualColCount = actual
	close(fl.done)
	c.session.stmtsLRU.add(key, fl)
	nvals := vChoose("bound_values", 3)
	var vals []interface{}
	for i := 0; i < nvals; i++ {
		if i == tupleAt {
			vals = append(vals, []interface{}{int32(1), int32(2)})
		} else {
			vals = append(vals, int32(7))
		}
	}
	vExecuteReply = []frame{nil}
	q := &Query{stmt: "SELECT a", values: vals, session: c.session, routingInfo: &queryRoutingInfo{}, context: context.Background()}
	iter := c.executeQuery(&vCtx{done: make(chan struct{})}, q)
	if nvals != ncols {
		vAssert(iter != nil && iter.err != nil && len(vExecLog) == 0, "C14/values/wrong-count-is-an-error-and-nothing-is-sent")
	} else {
		vAssert(iter != nil && iter.err == nil && len(vExecLog) == 1 && vExecLog[0].execute != nil && len(vExecLog[0].execute.params.values) == nvals, "C14/values/right-count-is-sent")
	}
	vObserve("n", len(vExecLog))
}

// ---- the cache key ----
//
// Executions share a cache entry (and so a prepared id and its metadata) exactly when their keys are
// equal. For one host and keyspace two statements that differ at all - also only in whitespace or letter
// case, which are significant inside string literals and quoted identifiers - must get different keys;
// the same statement on two hosts (ids are 36-character UUIDs) or in two keyspaces of equal length must
// too. (Collisions from shifting characters between keyspace and statement are not claimed, see 13.4.)
func vh_key_for() {
	p := &preparedLRU{}
	const h1, h2 = "00000000-0000-0000-0000-000000000001", "00000000-0000-0000-0000-000000000002"
	pairs := [][2]string{
		{"SELECT 'a  b'", "SELECT 'a b'"},
		{"SELECT a ", "SELECT a"},
		{" SELECT a", "SELECT a"},
		{"SELECT\ta", "SELECT a"},
		{"SELECT \"Col\" FROM t", "SELECT \"col\" FROM t"},
		{"INSERT INTO t(a) VALUES ('x\n')", "INSERT INTO t(a) VALUES ('x ')"},
	}
	for _, pr := range pairs {
		vAssert(p.keyFor(h1, "ks", pr[0]) != p.keyFor(h1, "ks", pr[1]), "C14/key/different-statements-different-entries")
	}
	vAssert(p.keyFor(h1, "ks", "SELECT a") != p.keyFor(h2, "ks", "SELECT a"), "C14/key/different-hosts-different-entries")
	vAssert(p.keyFor(h1, "k1", "SELECT a") != p.keyFor(h1, "k2", "SELECT a"), "C14/key/different-keyspaces-different-entries")
	vAssert(p.keyFor(h1, "ks", "SELECT a") == p.keyFor(h1, "ks", "SELECT a"), "C14/key/same-statement-same-entry")
	// and for arbitrary short statements
	s1, s2 := vString("s1", 3), vString("s2", 3)
	if s1 != s2 {
		vAssert(p.keyFor(h1, "ks", s1) != p.keyFor(h1, "ks", s2), "C14/key/different-statements-different-entries")
	}
	vObserve("same", s1 == s2)
}

// the same for a prepared statement inside a BATCH (executeBatch has its own copy of the check)
func vh_batch_value_count() {
	c := vConnWithCache(2)
	key := c.session.stmtsLRU.keyFor(c.host.HostID(), c.currentKeyspace, "INSERT a")
	ncols := vChoose("bind_columns", 3)
	cols := make([]ColumnInfo, ncols)
	for i := range cols {
		cols[i] = ColumnInfo{Name: "c", TypeInfo: NativeType{proto: c.version, typ: TypeInt}}
	}
	actual := ncols
	tupleAt := -1
	if ncols > 0 && vBool("a_tuple_bind_marker") {
		tupleAt = vChoose("tuple_at", ncols)
		cols[tupleAt].TypeInfo = TupleTypeInfo{NativeType: NativeType{proto: c.version, typ: TypeTuple},
			Elems: []TypeInfo{NativeType{proto: c.version, typ: TypeInt}, NativeType{proto: c.version, typ: TypeInt}}}
		actual++
	}
	fl := &inflightPrepare{done: make(chan struct{}), preparedStatment: &preparedStatment{id: []byte{1}}}
	fl.preparedStatment.request.columns = cols
	fl.preparedStatment.request.colCount = ncols
	fl.preparedStatment.request.actualColCount = actual
	close(fl.done)
	c.session.stmtsLRU.add(key, fl)
	// a batch entry without arguments is sent as a plain query string (never prepared, nothing to count):
	// the count check is about entries WITH bound values
	nvals := 1 + vChoose("bound_values", 2)
	var vals []interface{}
	for i := 0; i < nvals; i++ {
		if i == tupleAt {
			vals = append(vals, []interface{}{int32(1), int32(2)})
		} else {
			vals = append(vals, int32(7))
		}
	}
	entry := BatchEntry{Stmt: "INSERT a", Args: vals}
	if vBool("values_from_a_binding_callback") {
		// Batch.Bind: the values come from a callback that is handed the statement's metadata
		bound := vals
		entry = BatchEntry{Stmt: "INSERT a", binding: func(q *QueryInfo) ([]interface{}, error) { return bound, nil }}
	}
	b := &Batch{Type: LoggedBatch, context: &vCtx{done: make(chan struct{})}, Entries: []BatchEntry{entry}}
	iter := c.executeBatch(b.context, b)
	sentBatch := 0
	for _, l := range vExecLog {
		if w, ok := l.other.(*writeBatchFrame); ok {
			sentBatch++
			if nvals == ncols {
				vAssert(len(w.statements) == 1 && len(w.statements[0].values) == nvals && refBytesEq(w.statements[0].preparedID, []byte{1}), "C14/values/batch-right-count-is-sent-with-that-statements-id")
			}
		}
	}
	if nvals != ncols {
		vAssert(iter != nil && iter.err != nil && sentBatch == 0, "C14/values/batch-wrong-count-is-an-error-and-nothing-is-sent")
	} else {
		vAssert(sentBatch == 1, "C14/values/batch-right-count-is-sent-with-that-statements-id")
	}
	vObserve("n", sentBatch)
}

// "a wrong number of bound values is reported as an error rather than sent" - also on the way the
// token-aware policy takes BEFORE the count check of executeQuery: Pick -> Query.GetRoutingKey ->
// createRoutingKey indexes the bound values with the partition key positions of the statement.
func vh_routing_key_value_count() {
	int4 := NativeType{proto: 4, typ: TypeInt}
	info := &routingKeyInfo{indexes: []int{1}, types: []TypeInfo{int4}}
	need := 2
	if vBool("composite_key") {
		info = &routingKeyInfo{indexes: []int{0, 2}, types: []TypeInfo{int4, int4}}
		need = 3
	}
	n := vChoose("bound_values", 4)
	values := make([]interface{}, n)
	for i := range values {
		values[i] = int32(7)
	}
	key, err := createRoutingKey(info, values)
	vAssert((err == nil) == (n >= need), "C14/values/routing-key-of-too-few-values-is-an-error")
	if err != nil {
		vAssert(key == nil, "C14/values/routing-key-of-too-few-values-is-an-error")
	}
	vObserve("ok", err == nil)
}

// "the cache never exceeds its configured size": the size the session's caches are BUILT with, through the
// real constructor (Session.init, which dials the cluster, is a stub: nothing after construction matters).
func vstubSessionInit(s *Session) error { return nil }

func vh_new_session_cache_sizes() {
	cfg := NewCluster("10.0.0.1")
	cfg.MaxPreparedStmts = 1 + vChoose("max_prepared", 3)
	cfg.MaxRoutingKeyInfo = 1 + vChoose("max_routing", 3)
	s, err := NewSession(*cfg)
	vAssert(err == nil && s != nil, "C14/session/constructed")
	if s == nil {
		return
	}
	vAssert(s.stmtsLRU != nil && s.stmtsLRU.lru != nil && s.stmtsLRU.lru.MaxEntries == cfg.MaxPreparedStmts, "C14/session/prepared-cache-has-the-configured-size")
	vAssert(s.routingKeyInfoCache.lru != nil && s.routingKeyInfoCache.lru.MaxEntries == cfg.MaxRoutingKeyInfo, "C14/session/routing-info-cache-has-the-configured-size")
}
