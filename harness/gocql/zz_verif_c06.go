package gocql

import (
	"sync"
	"time"
)

// ---- C06 / C17: stopping the debouncers never hangs (rendezvous obligation T6) ----
//
// stop() sets `stopped` under the lock and then performs an UNBUFFERED send on quit "to sync with
// the flusher". The flusher therefore owes the matching receive: it must not return while a
// stop() is (or is about to be) blocked in that send. The environment is stop() itself: it may run
// before the flusher's select or while the flusher waits for the mutex; a pending send is
// modelled as one queued value in quit.

var (
	vRD        *refreshDebouncer
	vRefreshes int
)

func vStopArrives() {
	vRD.stopped = true
	vChanPush(vRD.quit, struct{}{}) // stop() now blocks in `d.quit <- struct{}{}` until it is received
}

func vOnLockDebouncer(mu *sync.Mutex) {
	if vRD != nil && mu == &vRD.mu && !vRD.stopped && vBool("stop_runs_while_flusher_waits_for_the_lock") {
		vStopArrives()
	}
}

func vh_refresh_debouncer_stop() {
	vRefreshes = 0
	tc := make(chan time.Time, 1)
	d := &refreshDebouncer{
		refreshNowCh: make(chan struct{}, 1),
		quit:         make(chan struct{}),
		interval:     time.Second,
		timer:        &time.Timer{C: tc},
		refreshFn: func() error {
			vRefreshes++
			vAssume(vRefreshes <= 1) // one refresh per explored prefix
			return nil
		},
	}
	vRD = d
	if vBool("refresh_requested") {
		d.refreshNowCh <- struct{}{}
	}
	if vBool("timer_fired") {
		tc <- time.Time{}
	}
	if vBool("stop_ran_before") {
		vStopArrives()
	}
	d.flusher()
	// the flusher returned: it exits only when stopped, and then a stop() is sending on quit
	vAssert(d.stopped, "C06/debouncer/flusher-exits-only-when-stopped")
	vWitness("woken-by-refresh-or-timer-then-stopped", true)
	vAssert(len(d.quit) == 0, "C06/debouncer/refresh-flusher-receives-stops-rendezvous")
	vObserve("refreshes", vRefreshes)
}

func vh_event_debouncer_stop() {
	tc := make(chan time.Time, 1)
	e := &eventDebouncer{quit: make(chan struct{}), timer: &time.Timer{C: tc}, callback: func([]frame) {}, logger: vNopLogger{}}
	if vBool("timer_fired") {
		tc <- time.Time{}
	}
	if vBool("stop_ran_before") {
		vChanPush(e.quit, struct{}{})
	}
	e.flusher()
	vAssert(len(e.quit) == 0, "C06/debouncer/event-flusher-receives-stops-rendezvous")
}

// ---- C16: a refresh request made while a refresh is running gets a refresh of its own ----
//
// The running refresh has already read the cluster's tables, so it cannot serve a request (topology
// event -> debounce, reconnect -> refreshNow) that arrives after it started. The environment makes
// such a request from inside the first refresh; stop() arrives only when the flusher has nothing
// left to do (a deferred goroutine: it runs when the flusher waits).
var (
	vRDTimerC chan time.Time
	vRDLate   bool
)

func vstubTimerResetFires(t *time.Timer, d time.Duration) bool {
	select {
	case vRDTimerC <- time.Time{}: // the debounce interval elapses (time is the environment's)
	default:
	}
	return true
}

func vStopWhenIdle() { vStopArrives() }

func vh_refresh_debouncer_requests() {
	vRefreshes, vRDLate = 0, false
	vRDTimerC = make(chan time.Time, 1)
	var d *refreshDebouncer
	d = &refreshDebouncer{
		refreshNowCh: make(chan struct{}, 1),
		quit:         make(chan struct{}),
		interval:     time.Second,
		timer:        &time.Timer{C: vRDTimerC},
		refreshFn: func() error {
			vRefreshes++
			vAssume(vRefreshes <= 3)
			if vRefreshes == 1 && vBool("a_request_arrives_while_the_refresh_runs") {
				vRDLate = true
				if vBool("it_is_refresh_now") {
					d.refreshNow()
				} else {
					d.debounce()
				}
			}
			return nil
		},
	}
	vRD = d
	if vBool("first_request_is_refresh_now") {
		d.refreshNow()
	} else {
		d.debounce()
	}
	go vStopWhenIdle()
	d.flusher()
	vAssert(d.stopped, "C06/debouncer/flusher-exits-only-when-stopped")
	if vRDLate {
		vAssert(vRefreshes == 2, "C16/debouncer/a-request-made-during-a-refresh-gets-a-refresh-of-its-own")
	} else {
		vAssert(vRefreshes == 1, "C16/debouncer/one-refresh-per-burst-of-requests")
	}
	vObserve("refreshes", vRefreshes)
}
