package gocql

import "net"

// ---- C11: host selection offers each live node once, nearest and replicas first ----

// vHosts: h hosts whose datacenter / rack / up-down state are free.
func vHosts(h int) []*HostInfo {
	hosts := make([]*HostInfo, h)
	for i := range hosts {
		hi := &HostInfo{hostId: string(rune('a' + i)), connectAddress: net.IPv4(10, 0, 0, byte(i+1))}
		hi.dataCenter = []string{"local", "remote"}[vChoose("dc", 2)]
		hi.rack = []string{"rackL", "rackO"}[vChoose("rack", 2)]
		hi.state = NodeDown
		if vBool("up") {
			hi.state = NodeUp
		}
		hosts[i] = hi
	}
	return hosts
}

func vPolicy(kind int) HostSelectionPolicy {
	switch kind {
	case 0:
		return RoundRobinHostPolicy()
	case 1:
		return DCAwareRoundRobinPolicy("local")
	}
	return RackAwareRoundRobinPolicy("local", "rackL")
}

// vTier: the distance the policy kind assigns (reference, from the documentation)
func vTier(kind int, h *HostInfo) int {
	switch kind {
	case 0:
		return 0
	case 1:
		if h.dataCenter == "local" {
			return 0
		}
		return 1
	}
	if h.dataCenter != "local" {
		return 2
	}
	if h.rack != "rackL" {
		return 1
	}
	return 0
}

func vSetCounter(p HostSelectionPolicy, c uint64) {
	switch x := p.(type) {
	case *roundRobinHostPolicy:
		x.lastUsedHostIdx = c
	case *dcAwareRR:
		x.lastUsedHostIdx = c
	case *rackAwareRR:
		x.lastUsedHostIdx = c
	}
}

// vDrain calls the iterator until it returns nil (at most h+1 times)
func vDrain(next NextHost, h int, pre string) []*HostInfo {
	var out []*HostInfo
	for i := 0; i <= h; i++ {
		s := next()
		if s == nil {
			return out
		}
		out = append(out, s.Info())
	}
	vAssert(next() == nil, pre+"/sequence-is-finite")
	return out
}

func vIndexOf(l []*HostInfo, h *HostInfo) int {
	for i, x := range l {
		if x == h {
			return i
		}
	}
	return -1
}

func vCheckOffer(seq, hosts []*HostInfo, pre string) {
	vAssert(vNoDup(seq), pre+"/no-host-twice")
	onlyUp, all := true, true
	for _, s := range seq {
		onlyUp = onlyUp && s.state == NodeUp
	}
	for _, h := range hosts {
		if h.state == NodeUp && !vHas(seq, h) {
			all = false
		}
	}
	vAssert(onlyUp, pre+"/only-up-hosts")
	vAssert(all, pre+"/every-up-host-is-offered")
}

func vh_roundrobin() {
	kind := vBound("policy")
	h := vBound("h")
	hosts := vHosts(h)
	p := vPolicy(kind)
	for _, x := range hosts {
		p.AddHost(x)
	}
	// The counter only enters through (counter+i) % tier size. Solvers do not finish mod-3 / mod-5
	// reasoning over a 62-bit symbolic counter (probed: unknown in z3, z3 5.1 and cvc5 int-blasting),
	// so this one input is enumerated over whole periods (lcm of the tier sizes) instead.
	c := uint64(vChoose("counter", vBound("counter_values")))
	vSetCounter(p, c)
	seq := vDrain(p.Pick(nil), h, "C11/rr")
	vCheckOffer(seq, hosts, "C11/rr")
	mono := true
	for i := 1; i < len(seq); i++ {
		mono = mono && vTier(kind, seq[i-1]) <= vTier(kind, seq[i])
	}
	vAssert(mono, "C11/rr/nearer-tiers-first")
	// successive picks rotate the start within every tier (checked for the tiers whose hosts are all up,
	// where the first host offered of the tier is the tier's start)
	var seq2 []*HostInfo
	for t := 0; t <= 2; t++ {
		var tier []*HostInfo
		allUp := true
		for _, x := range hosts {
			if vTier(kind, x) == t {
				tier = append(tier, x)
				allUp = allUp && x.state == NodeUp
			}
		}
		if len(tier) == 0 || !allUp || len(seq) == 0 {
			continue
		}
		if seq2 == nil {
			seq2 = vDrain(p.Pick(nil), h, "C11/rr")
		}
		i1, i2 := -1, -1
		for _, x := range seq {
			if vTier(kind, x) == t {
				i1 = vIndexOf(tier, x)
				break
			}
		}
		for _, x := range seq2 {
			if vTier(kind, x) == t {
				i2 = vIndexOf(tier, x)
				break
			}
		}
		vAssert(i1 >= 0 && i2 == (i1+1)%len(tier), "C11/rr/successive-picks-rotate-the-start")
	}
	vObserve("n", len(seq))
}

// copy-on-write: a list obtained before add/remove is unchanged afterwards
func vh_cow_list() {
	h := vBound("h")
	hosts := vHosts(h)
	var l cowHostList
	for _, x := range hosts[:h-1] {
		l.add(x)
	}
	before := l.get()
	snap := append([]*HostInfo(nil), before...)
	if vBool("remove") {
		l.remove(hosts[vChoose("victim", h)].ConnectAddress())
	} else {
		l.add(hosts[vChoose("added", h)])
	}
	same := len(before) == len(snap)
	for i := 0; same && i < len(snap); i++ {
		same = before[i] == snap[i]
	}
	vAssert(same, "C11/cow/old-snapshot-unchanged")
	vAssert(vNoDup(l.get()), "C11/cow/no-duplicates")
	vObserve("n", len(l.get()))
}

func vstubShuffle(hosts []*HostInfo) []*HostInfo {
	// an arbitrary permutation
	out := make([]*HostInfo, 0, len(hosts))
	left := append([]*HostInfo(nil), hosts...)
	for len(left) > 0 {
		i := vChoose("perm", len(left))
		out = append(out, left[i])
		left = append(left[:i], left[i+1:]...)
	}
	return out
}

func vh_token_aware() {
	kind := vBound("policy")
	h := vBound("h")
	hosts := vHosts(h)
	fb := vPolicy(kind)
	var opts []func(*tokenAwareHostPolicy)
	nonLocal := vBool("non_local_replicas_fallback")
	if nonLocal {
		opts = append(opts, NonLocalReplicasFallback())
	}
	shuffle := vBound("shuffle") == 1
	if shuffle {
		opts = append(opts, ShuffleReplicas())
	}
	tp := TokenAwareHostPolicy(fb, opts...).(*tokenAwareHostPolicy)
	for _, x := range hosts {
		fb.AddHost(x)
	}
	c := uint64(vChoose("counter", vBound("counter_values")))
	vSetCounter(fb, c)
	// the replicas of the query's token: an ordered choice of distinct hosts
	nr := vChoose("nreplicas", vBound("maxrep")+1)
	var replicas []*HostInfo
	for i := 0; i < nr; i++ {
		r := hosts[vChoose("replica", h)]
		vAssume(!vHas(replicas, r))
		replicas = append(replicas, r)
	}
	ring := &tokenRing{partitioner: orderedPartitioner{}, hosts: hosts, tokens: []hostToken{{orderedToken("m"), hosts[0]}}}
	meta := &clusterMeta{tokenRing: ring, replicas: map[string]tokenRingReplicas{}}
	if nr > 0 {
		meta.replicas["ks"] = tokenRingReplicas{{token: orderedToken("m"), hosts: replicas}}
	}
	tp.metadata.Store(meta)
	q := &Query{routingKey: []byte("k"), getKeyspace: func() string { return "ks" }}
	if vBool("no_routing_key") {
		q.routingKey = nil
		q.binding = func(*QueryInfo) ([]interface{}, error) { return nil, nil }
	}
	seq := vDrain(tp.Pick(q), h, "C11/tokenaware")
	vCheckOffer(seq, hosts, "C11/tokenaware")
	if q.routingKey == nil || shuffle {
		return
	}
	eff := replicas
	if nr == 0 {
		eff = []*HostInfo{hosts[0]} // ring owner of the token
	}
	// expected prefix: up replicas of the nearest tier in replica order, then (fallback on) up replicas
	// of farther tiers in tier order
	var want []*HostInfo
	for _, r := range eff {
		if vTier(kind, r) == 0 && r.state == NodeUp {
			want = append(want, r)
		}
	}
	if nonLocal {
		for t := 1; t <= 2; t++ {
			for _, r := range eff {
				if vTier(kind, r) == t && r.state == NodeUp {
					want = append(want, r)
				}
			}
		}
	}
	ok := len(seq) >= len(want)
	for i := 0; ok && i < len(want); i++ {
		ok = seq[i] == want[i]
	}
	// witness of the recorded finding: a replica sits beyond an EMPTY intermediate tier
	gap := false
	if nonLocal && kind == 2 {
		t1, t2 := false, false
		for _, r := range eff {
			if vTier(kind, r) == 1 {
				t1 = true
			}
			if vTier(kind, r) == 2 {
				t2 = true
			}
		}
		gap = t2 && !t1
	}
	vWitness("empty-intermediate-tier", gap)
	vAssert(ok, "C11/tokenaware/replicas-first-nearest-tier-first")
	rest := seq[len(want):]
	mono := true
	for i := 1; i < len(rest); i++ {
		mono = mono && vTier(kind, rest[i-1]) <= vTier(kind, rest[i])
	}
	if ok {
		vAssert(mono, "C11/tokenaware/rest-nearer-tiers-first")
	}
	vObserve("n", len(seq))
}

// ---- token-aware end to end: routing key -> token -> ring -> replicas -> offered hosts ----
//
// The pieces decided separately (C09 token of a key, C10 replicas of a token, the replica-first order
// above) are run together through the policy's own bookkeeping: SetPartitioner / AddHost / RemoveHost /
// HostDown build the token ring and the replica map, Pick hashes the query's routing key. Ordered
// partitioner (token = key bytes), three hosts owning one token each, SimpleStrategy rf = 2.
func vh_token_aware_e2e() {
	tp := TokenAwareHostPolicy(RoundRobinHostPolicy()).(*tokenAwareHostPolicy)
	tp.getKeyspaceName = func() string { return "ks" }
	metaFails := false // the keyspace metadata lookup may start failing (control connection down, unsupported strategy)
	tp.getKeyspaceMetadata = func(ks string) (*KeyspaceMetadata, error) {
		if metaFails {
			return nil, vErrIO
		}
		return &KeyspaceMetadata{Name: ks, StrategyClass: "SimpleStrategy", StrategyOptions: map[string]interface{}{"class": "SimpleStrategy", "replication_factor": 2}}, nil
	}
	tp.logger = vNopLogger{}
	toks := []string{"d", "m", "t"}
	hosts := make([]*HostInfo, 3)
	for i := range hosts {
		hosts[i] = &HostInfo{hostId: string(rune('a' + i)), connectAddress: net.IPv4(10, 0, 0, byte(i+1)), tokens: []string{toks[i]}, state: NodeUp, dataCenter: "dc", rack: "r"}
	}
	tp.SetPartitioner("OrderedPartitioner")
	// membership history: all three join (any order), optionally one leaves again
	order := [][]int{{0, 1, 2}, {2, 0, 1}, {1, 2, 0}}[vChoose("join_order", 3)]
	for _, i := range order {
		tp.AddHost(hosts[i])
	}
	gone := -1
	if vBool("one_host_removed") {
		gone = vChoose("gone", 3)
		metaFails = vBool("metadata_lookup_fails_from_now_on")
		tp.RemoveHost(hosts[gone])
	}
	down := -1
	if vBool("one_host_down") {
		down = vChoose("down", 3)
		if down != gone {
			hosts[down].setState(NodeDown)
			tp.HostDown(hosts[down])
		} else {
			down = -1
		}
	}
	// the node comes back: the session announces it with AddHost (startPoolFill on a node-up event)
	// and / or HostUp (handleNodeConnected), in either order
	if down >= 0 && vBool("down_host_returns") {
		hosts[down].setState(NodeUp)
		switch vChoose("announced_by", 3) {
		case 0:
			tp.AddHost(hosts[down])
		case 1:
			tp.HostUp(hosts[down])
		default:
			tp.AddHost(hosts[down])
			tp.HostUp(hosts[down])
		}
	}
	key := vBytesN("key", 1)
	q := &Query{routingKey: key, getKeyspace: func() string { return "ks" }}
	noKey := vBool("no_routing_key")
	if noKey {
		// a Session.Bind query whose values are not known yet has no routing key: fallback order only
		q = &Query{getKeyspace: func() string { return "ks" }, binding: func(*QueryInfo) ([]interface{}, error) { return nil, nil }}
	}
	var seq []*HostInfo
	next := tp.Pick(q)
	for i := 0; i < 4; i++ {
		s := next()
		if s == nil {
			break
		}
		seq = append(seq, s.Info())
	}
	// reference: members in ring order; the owner of the key is the first member whose token >= key,
	// wrapping to the smallest token; replicas = owner and the next member (rf 2)
	var members []int
	for i := 0; i < 3; i++ {
		if i != gone {
			members = append(members, i)
		}
	}
	owner := 0
	found := false
	for idx, m := range members {
		if !found && key[0] <= toks[m][0] {
			owner, found = idx, true
		}
	}
	var want []*HostInfo
	nrep := 2
	if metaFails {
		// no replica map can be computed for the new ring: the owner of the key's range (from the NEW ring) comes
		// first, a map computed for the previous ring must not be used
		nrep = 1
	}
	if len(members) < nrep {
		nrep = len(members)
	}
	for k := 0; k < nrep; k++ {
		h := hosts[members[(owner+k)%len(members)]]
		if h.state == NodeUp {
			want = append(want, h)
		}
	}
	if noKey {
		want = nil
	}
	ok := len(seq) >= len(want)
	for i := 0; ok && i < len(want); i++ {
		ok = seq[i] == want[i]
	}
	vAssert(ok, "C11/tokenaware/e2e/up-replicas-of-the-keys-token-first-primary-first")
	up := 0
	for _, m := range members {
		if hosts[m].state == NodeUp {
			up++
		}
	}
	vAssert(len(seq) == up && vNoDup(seq), "C11/tokenaware/e2e/every-up-member-once")
	for _, s := range seq {
		vAssert(s.state == NodeUp && (gone < 0 || s != hosts[gone]), "C11/tokenaware/e2e/only-up-members")
	}
	vObserve("n", len(seq))
}
