package gocql

// Harness support ("nondet" functions). The symbolic engine intercepts every
// function below by name; the bodies here are the native semantics used when a
// solver model is replayed against the real build (go test -overlay).

import (
	"runtime"
	"encoding/json"
	"fmt"
	"math/big"
	"os"
	"reflect"
	"time"
)

type vCase struct {
	ID     string            `json:"id"`
	Entry  string            `json:"entry"`
	Inputs map[string]string `json:"inputs"`
	Bounds map[string]int    `json:"bounds"`
}

var vCur *vCase
var vCnt map[string]int

type vStop struct{}

func vName(base string) string {
	n := vCnt[base]
	vCnt[base]++
	if n == 0 {
		return base
	}
	return fmt.Sprintf("%s#%d", base, n)
}

func vGet(name string) uint64 {
	s, ok := vCur.Inputs[name]
	if !ok {
		return 0
	}
	b, ok := new(big.Int).SetString(s, 10)
	if !ok {
		return 0
	}
	return b.Uint64()
}

func vBool(n string) bool   { return vGet(vName(n))&1 == 1 }
func vU8(n string) uint8    { return uint8(vGet(vName(n))) }
func vU16(n string) uint16  { return uint16(vGet(vName(n))) }
func vU32(n string) uint32  { return uint32(vGet(vName(n))) }
func vU64(n string) uint64  { return vGet(vName(n)) }
func vUint(n string) uint   { return uint(vGet(vName(n))) }
func vI8(n string) int8     { return int8(vGet(vName(n))) }
func vI16(n string) int16   { return int16(vGet(vName(n))) }
func vI32(n string) int32   { return int32(vGet(vName(n))) }
func vI64(n string) int64   { return int64(vGet(vName(n))) }
func vInt(n string) int     { return int(vGet(vName(n))) }

// vBytes: symbolic content and symbolic length <= max; cap == len.
func vBytes(n string, max int) []byte {
	nm := vName(n)
	l := int(vGet(nm + ".len"))
	b := make([]byte, l, l)
	for i := range b {
		b[i] = byte(vGet(fmt.Sprintf("%s[%d]", nm, i)))
	}
	return b
}

func vBytesN(n string, k int) []byte {
	nm := vName(n)
	b := make([]byte, k, k)
	for i := range b {
		b[i] = byte(vGet(fmt.Sprintf("%s[%d]", nm, i)))
	}
	return b
}

func vString(n string, max int) string { return string(vBytes(n, max)) }
func vStringN(n string, k int) string  { return string(vBytesN(n, k)) }

// vChoose: index in [0,k) resolved by forking in the engine.
func vChoose(n string, k int) int { return int(vGet(vName(n))) }

// vConcrete forces the engine to enumerate the feasible values of x.
func vConcrete(x int) int { return x }

func vAssume(c bool) {
	if !c {
		fmt.Println("VASSUME-FALSE")
		panic(vStop{})
	}
}

func vAssert(c bool, label string) {
	if !c {
		fmt.Printf("VFAIL %s\n", label)
	}
}

func vReach(label string) {}

// vWitness names a predicate over the inputs; known_findings.json refers to these names.
func vWitness(name string, c bool) {
	if c {
		fmt.Printf("VWITNESS %s\n", name)
	}
}

func vObserve(label string, v interface{}) { fmt.Printf("VOBS %s=%s\n", label, vFmt(v)) }

func vBound(n string) int { return vCur.Bounds[n] }

func vEvent(kind string)          {}
func vEventCount(kind string) int { return 0 }
func vEnvChan(ch interface{})     {}

func vFmt(v interface{}) string {
	if v == nil {
		return "nil"
	}
	if _, ok := v.(error); ok {
		return "err"
	}
	rv := reflect.ValueOf(v)
	switch rv.Kind() {
	case reflect.Bool:
		return fmt.Sprint(rv.Bool())
	case reflect.Int, reflect.Int8, reflect.Int16, reflect.Int32, reflect.Int64:
		return fmt.Sprint(rv.Int())
	case reflect.Uint, reflect.Uint8, reflect.Uint16, reflect.Uint32, reflect.Uint64, reflect.Uintptr:
		return fmt.Sprint(rv.Uint())
	case reflect.String:
		return fmt.Sprintf("%q", rv.String())
	case reflect.Slice:
		if rv.IsNil() {
			return "[]nil"
		}
		fallthrough
	case reflect.Array:
		s := "["
		for i := 0; i < rv.Len(); i++ {
			if i > 0 {
				s += " "
			}
			s += vFmt(rv.Index(i).Interface())
		}
		return s + "]"
	case reflect.Ptr:
		if rv.IsNil() {
			return "nil"
		}
		return "ptr"
	}
	return "?"
}

// vRunReplay runs every case of $VERIF_REPLAY against the native build.
func vRunReplay(entries map[string]func()) {
	b, err := os.ReadFile(os.Getenv("VERIF_REPLAY"))
	if err != nil {
		fmt.Println("VERROR", err)
		return
	}
	var f struct {
		Cases []vCase `json:"cases"`
	}
	if err := json.Unmarshal(b, &f); err != nil {
		fmt.Println("VERROR", err)
		return
	}
	for i := range f.Cases {
		c := &f.Cases[i]
		fmt.Printf("VCASE %s\n", c.ID)
		fn := entries[c.Entry]
		if fn == nil {
			fmt.Printf("VEND unknown-entry\n")
			continue
		}
		vCur = c
		vCnt = map[string]int{}
		done := make(chan string, 1)
		go func() {
			// allocation marker for alloc/proportional counterexamples: the harness inputs are a few bytes,
			// so a run that allocates more than 256 KiB in total did allocate out of proportion
			var m0 runtime.MemStats
			runtime.ReadMemStats(&m0)
			defer func() {
				var m1 runtime.MemStats
				runtime.ReadMemStats(&m1)
				if d := m1.TotalAlloc - m0.TotalAlloc; d > 256<<10 {
					fmt.Printf("VALLOC %d\n", d)
				}
			}()
			defer func() {
				if r := recover(); r != nil {
					if _, ok := r.(vStop); ok {
						done <- "stopped"
						return
					}
					fmt.Printf("VPANIC %v\n", r)
					done <- "panic"
					return
				}
			}()
			fn()
			done <- "ok"
		}()
		select {
		case s := <-done:
			fmt.Printf("VEND %s\n", s)
		case <-time.After(20 * time.Second):
			fmt.Printf("VTIMEOUT\nVEND timeout\n")
		}
	}
}

// non-short-circuit boolean connectives (keep harness conditions free of branches)
func vAnd(a, b bool) bool { return a && b }
func vOr(a, b bool) bool  { return a || b }
func vNot(a bool) bool    { return !a }
func vIte(c bool, a, b int64) int64 {
	if c {
		return a
	}
	return b
}

// vSliceOfLen: a byte slice of symbolic length whose content is irrelevant (never read).
func vSliceOfLen(n int) []byte { return make([]byte, n) }

// vChanPush preloads an environment channel with a value the peer will send.
func vChanPush(ch interface{}, v interface{}) {
	reflect.ValueOf(ch).Send(reflect.ValueOf(v))
}

// vLastSent: the value of the most recent send the goroutine under analysis performed on ch (engine event log).
func vLastSent(ch interface{}) interface{} { return nil }

// vSentOn: number of sends the goroutine under analysis performed on ch (engine event log).
func vSentOn(ch interface{}) int { return 0 }

// vRunPending: run every goroutine the spec deferred (defer_go) that has not run yet (engine-only; natively
// goroutines run on their own).
func vRunPending() {}

// vPendingCount: number of deferred goroutines that have not run yet (engine-only, natively 0).
func vPendingCount() int { return 0 }
