package gocql

import (
	"math/big"
	"net"
	"time"

	"gopkg.in/inf.v0"
)

// ---- C05: Unmarshal of arbitrary column bytes never panics / never over-allocates ----

type vUDTStruct struct {
	A int32  `cql:"a"`
	B string `cql:"b"`
}

type vTupStruct struct {
	A int // the Go type the driver itself picks for a CQL int (goType)
	B string
}

func vCellType(cell int, p byte) (TypeInfo, interface{}) {
	nt := func(t Type) NativeType { return NativeType{proto: p, typ: t} }
	switch cell {
	case 0:
		return nt(TypeInt), new(int32)
	case 1:
		return nt(TypeBigInt), new(int64)
	case 2:
		return nt(TypeVarint), new(big.Int)
	case 3:
		return nt(TypeVarint), new(int64)
	case 4:
		return nt(TypeDecimal), new(inf.Dec)
	case 5:
		return nt(TypeDuration), new(Duration)
	case 6:
		return nt(TypeDate), new(time.Time)
	case 7:
		return nt(TypeTimestamp), new(time.Time)
	case 8:
		return nt(TypeUUID), new(UUID)
	case 9:
		return nt(TypeTimeUUID), new(time.Time)
	case 10:
		return nt(TypeInet), new(net.IP)
	case 11:
		return nt(TypeVarchar), new(string)
	case 12:
		return nt(TypeBlob), new([]byte)
	case 13:
		return nt(TypeBoolean), new(bool)
	case 14:
		return nt(TypeTinyInt), new(int8)
	case 15:
		return nt(TypeSmallInt), new(uint16)
	case 16:
		return CollectionType{NativeType: nt(TypeList), Elem: nt(TypeInt)}, new([]int32)
	case 17:
		return CollectionType{NativeType: nt(TypeSet), Elem: nt(TypeVarchar)}, new([]string)
	case 18:
		return CollectionType{NativeType: nt(TypeMap), Key: nt(TypeVarchar), Elem: nt(TypeInt)}, new(map[string]int32)
	case 19:
		return TupleTypeInfo{NativeType: nt(TypeTuple), Elems: []TypeInfo{nt(TypeInt), nt(TypeVarchar)}}, &[]interface{}{new(int32), new(string)}
	case 20:
		return TupleTypeInfo{NativeType: nt(TypeTuple), Elems: []TypeInfo{nt(TypeInt), nt(TypeVarchar)}}, new(vTupStruct)
	case 21:
		return TupleTypeInfo{NativeType: nt(TypeTuple), Elems: []TypeInfo{nt(TypeInt), nt(TypeVarchar)}}, new([]interface{})
	case 22:
		return UDTTypeInfo{NativeType: nt(TypeUDT), KeySpace: "k", Name: "u", Elements: []UDTField{{Name: "a", Type: nt(TypeInt)}, {Name: "b", Type: nt(TypeVarchar)}}}, new(vUDTStruct)
	case 23:
		return UDTTypeInfo{NativeType: nt(TypeUDT), KeySpace: "k", Name: "u", Elements: []UDTField{{Name: "a", Type: nt(TypeInt)}, {Name: "b", Type: nt(TypeVarchar)}}}, new(map[string]interface{})
	case 24:
		return CollectionType{NativeType: nt(TypeList), Elem: CollectionType{NativeType: nt(TypeList), Elem: nt(TypeInt)}}, new([][]int32)
	case 25:
		return CollectionType{NativeType: nt(TypeList), Elem: nt(TypeInt)}, new([2]int32)
	case 26:
		return nt(TypeTime), new(time.Duration)
	case 27:
		return nt(TypeFloat), new(float32)
	case 28:
		return nt(TypeDouble), new(float64)
	case 29:
		return nt(TypeCounter), new(uint64)
	case 30:
		return nt(TypeInt), new(*int32)
	case 31:
		return nt(TypeInet), new(string)
	case 32:
		return nt(TypeUUID), new(string)
	case 33:
		return nt(TypeBigInt), new(string)
	}
	return nil, nil
}

const vNumCells = 34

func vh_unmarshal_any() {
	info, target := vCellType(vBound("cell"), byte(vBound("proto")))
	vAssume(info != nil)
	data := vBytes("data", vBound("L"))
	if vBool("null") {
		data = nil
	}
	err := Unmarshal(info, data, target)
	vReach("C05/unmarshal/returned")
	vObserve("err", err != nil)
}
