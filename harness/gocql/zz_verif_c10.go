package gocql

import "net"

// ---- C10: replica sets equal Cassandra's placement ----

type vNopLogger struct{}

func (vNopLogger) Print(v ...interface{})                 {}
func (vNopLogger) Printf(format string, v ...interface{}) {}
func (vNopLogger) Println(v ...interface{})               {}

var vDCNames = []string{"dc1", "dc2"}
var vRackNames = []string{"r1", "r2"}

// vRing builds a ring of n hosts with v tokens each: ring slot owners, datacenters and racks are
// chosen by the environment (forked), token VALUES stay symbolic (only their order matters).
func vRing(n, v int) (*tokenRing, []*HostInfo) {
	hosts := make([]*HostInfo, n)
	for i := range hosts {
		hosts[i] = &HostInfo{hostId: string(rune('a' + i)), connectAddress: net.IPv4(10, 0, 0, byte(i+1)),
			dataCenter: vDCNames[vChoose("dc", vBound("dcs"))], rack: vRackNames[vChoose("rack", vBound("racks"))], state: NodeUp}
	}
	ring := &tokenRing{partitioner: murmur3Partitioner{}, hosts: hosts}
	left := make([]int, n)
	for i := range left {
		left[i] = v
	}
	firstSeen := 0 // symmetry breaking: host i first appears before host i+1
	var prev int64
	for s := 0; s < n*v; s++ {
		o := vChoose("owner", n)
		vAssume(left[o] > 0 && o <= firstSeen)
		if o == firstSeen {
			firstSeen++
		}
		left[o]--
		t := vI64("tok")
		if s > 0 {
			vAssume(prev < t)
		}
		prev = t
		ring.tokens = append(ring.tokens, hostToken{murmur3Token(t), hosts[o]})
	}
	return ring, hosts
}

func vHas(l []*HostInfo, h *HostInfo) bool {
	for _, x := range l {
		if x == h {
			return true
		}
	}
	return false
}

func vNoDup(l []*HostInfo) bool {
	for i := range l {
		for j := i + 1; j < len(l); j++ {
			if l[i] == l[j] {
				return false
			}
		}
	}
	return true
}

func vSameSet(a, b []*HostInfo) bool {
	for _, x := range a {
		if !vHas(b, x) {
			return false
		}
	}
	for _, x := range b {
		if !vHas(a, x) {
			return false
		}
	}
	return true
}

// refSimple: SimpleStrategy.calculateNaturalEndpoints: next distinct endpoints clockwise.
func refSimple(ring *tokenRing, i int, rf int) []*HostInfo {
	var out []*HostInfo
	n := len(ring.tokens)
	for j := 0; j < n && len(out) < rf; j++ {
		h := ring.tokens[(i+j)%n].host
		if !vHas(out, h) {
			out = append(out, h)
		}
	}
	return out
}

// refNTS: NetworkTopologyStrategy.calculateNaturalEndpoints (Cassandra 3.x), sets throughout.
func refNTS(ring *tokenRing, i int, rfs map[string]int) []*HostInfo {
	var replicas []*HostInfo
	nodes := map[string][]*HostInfo{}
	racks := map[string][]string{}
	for _, h := range ring.hosts {
		if !vHas(nodes[h.dataCenter], h) {
			nodes[h.dataCenter] = append(nodes[h.dataCenter], h)
		}
		seen := false
		for _, r := range racks[h.dataCenter] {
			if r == h.rack {
				seen = true
			}
		}
		if !seen {
			racks[h.dataCenter] = append(racks[h.dataCenter], h.rack)
		}
	}
	dcReplicas := map[string][]*HostInfo{}
	seenRacks := map[string][]string{}
	skipped := map[string][]*HostInfo{}
	sufficient := func(dc string) bool {
		need := rfs[dc]
		if len(nodes[dc]) < need {
			need = len(nodes[dc])
		}
		return len(dcReplicas[dc]) >= need
	}
	n := len(ring.tokens)
	for j := 0; j < n; j++ {
		ep := ring.tokens[(i+j)%n].host
		dc := ep.dataCenter
		if rf, ok := rfs[dc]; !ok || rf == 0 || sufficient(dc) {
			continue
		}
		if vHas(replicas, ep) {
			continue // endpoint collections are sets
		}
		if len(seenRacks[dc]) == len(racks[dc]) {
			dcReplicas[dc] = append(dcReplicas[dc], ep)
			replicas = append(replicas, ep)
			continue
		}
		rackSeen := false
		for _, r := range seenRacks[dc] {
			if r == ep.rack {
				rackSeen = true
			}
		}
		if rackSeen {
			if !vHas(skipped[dc], ep) {
				skipped[dc] = append(skipped[dc], ep)
			}
			continue
		}
		dcReplicas[dc] = append(dcReplicas[dc], ep)
		replicas = append(replicas, ep)
		seenRacks[dc] = append(seenRacks[dc], ep.rack)
		if len(seenRacks[dc]) == len(racks[dc]) {
			for _, sk := range skipped[dc] {
				if sufficient(dc) {
					break
				}
				if !vHas(replicas, sk) {
					dcReplicas[dc] = append(dcReplicas[dc], sk)
					replicas = append(replicas, sk)
				}
			}
		}
	}
	return replicas
}

func vCheckPlacement(ring *tokenRing, rr tokenRingReplicas, i int, want []*HostInfo, ownerHolds bool, pre string) {
	ht := rr.replicasFor(ring.tokens[i].token)
	var got []*HostInfo
	if ht != nil {
		got = ht.hosts
	}
	vAssert(vNoDup(got), pre+"/no-node-twice")
	vAssert(len(got) <= len(ring.hosts), pre+"/at-most-the-distinct-nodes")
	vAssert(vSameSet(got, want), pre+"/same-nodes-as-cassandra")
	if ownerHolds && len(want) > 0 {
		vAssert(len(got) > 0 && got[0] == ring.tokens[i].host, pre+"/range-owner-first")
	}
}

func vh_simple_strategy() {
	n, v := vBound("n"), vBound("v")
	ring, _ := vRing(n, v)
	rf := vInt("rf")
	vAssume(rf >= 0 && rf <= n+1)
	ks := &KeyspaceMetadata{Name: "ks", StrategyClass: "org.apache.cassandra.locator.SimpleStrategy", StrategyOptions: map[string]interface{}{"class": "SimpleStrategy", "replication_factor": rf}}
	st := getStrategy(ks, vNopLogger{})
	vAssert(st != nil, "C10/simple/strategy-recognised")
	if st == nil {
		return
	}
	rr := st.replicaMap(ring)
	for i := range ring.tokens {
		vCheckPlacement(ring, rr, i, refSimple(ring, i, rf), true, "C10/simple")
	}
	vObserve("entries", len(rr))
}

func vh_nts() {
	n, v := vBound("n"), vBound("v")
	ring, _ := vRing(n, v)
	opts := map[string]interface{}{"class": "NetworkTopologyStrategy"}
	rfs := map[string]int{}
	// every datacenter name may or may not be in the keyspace options, incl. one the ring lacks
	for _, dc := range []string{"dc1", "dc2", "dcX"} {
		if dc == "dc2" && vBound("dcs") < 2 && vBound("absent") == 0 {
			continue
		}
		if dc == "dcX" && vBound("absent") == 0 {
			continue
		}
		if vBool("named_" + dc) {
			rf := vInt("rf_" + dc)
			vAssume(rf >= 0 && rf <= n+1)
			opts[dc] = rf
			rfs[dc] = rf
		}
	}
	ks := &KeyspaceMetadata{Name: "ks", StrategyClass: "org.apache.cassandra.locator.NetworkTopologyStrategy", StrategyOptions: opts}
	st := getStrategy(ks, vNopLogger{})
	vAssert(st != nil, "C10/nts/strategy-recognised")
	if st == nil {
		return
	}
	// witnesses for the recorded findings
	absentNamed := false
	for dc, rf := range rfs {
		present := false
		for _, h := range ring.hosts {
			if h.dataCenter == dc {
				present = true
			}
		}
		if !present && rf > 0 {
			absentNamed = true
		}
	}
	vWitness("keyspace-names-absent-datacenter", absentNamed)
	vWitness("vnodes", v > 1)
	rr := st.replicaMap(ring)
	for i := range ring.tokens {
		want := refNTS(ring, i, rfs)
		ownerHolds := rfs[ring.tokens[i].host.dataCenter] > 0
		vCheckPlacement(ring, rr, i, want, ownerHolds, "C10/nts")
	}
	vObserve("entries", len(rr))
}

// ---- the token ring as built from what the cluster reports (newTokenRing) ----
//
// Token strings come from system.local / system.peers. Asserted for each partitioner: every token of
// every reported host is in the ring whatever the host's up/down state (placement depends on membership,
// not on reachability), the ring is sorted the way the partitioner orders tokens and each token keeps its
// owner; malformed token strings (C05: they are server data) must not panic - neither here nor when the
// ring is used for a lookup.
func vh_new_token_ring() {
	parts := []string{"org.apache.cassandra.dht.Murmur3Partitioner", "org.apache.cassandra.dht.RandomPartitioner", "org.apache.cassandra.dht.ByteOrderedPartitioner"}
	pi := vBound("partitioner")
	cands := []string{"-5", "0", "7", "100", "", "abc", "12x"}
	nc := 4 // well-formed candidates only
	if vBound("malformed") == 1 {
		nc = len(cands)
	}
	pick := func() string { return cands[vChoose("token", nc)] }
	a := &HostInfo{hostId: "a", connectAddress: net.IPv4(10, 0, 0, 1), tokens: []string{pick(), pick()}, state: NodeUp}
	b := &HostInfo{hostId: "b", connectAddress: net.IPv4(10, 0, 0, 2), tokens: []string{pick()}, state: NodeUp}
	if vBool("a_down") {
		a.state = NodeDown
	}
	if vBool("b_down") {
		b.state = NodeDown
	}
	ring, err := newTokenRing(parts[pi], []*HostInfo{a, b})
	vAssert(err == nil && ring != nil, "C10/ring/built-for-a-supported-partitioner")
	if ring == nil {
		return
	}
	vAssert(len(ring.tokens) == 3, "C10/ring/every-reported-token-is-in-the-ring-whatever-the-hosts-state")
	sorted := true
	for i := 1; i < len(ring.tokens); i++ {
		sorted = sorted && !ring.tokens[i].token.Less(ring.tokens[i-1].token)
	}
	vAssert(sorted, "C10/ring/sorted-in-the-partitioners-token-order")
	if vBound("malformed") == 0 {
		// each token string is found with its owner
		owners := true
		for _, h := range []*HostInfo{a, b} {
			for _, ts := range h.tokens {
				found := false
				for _, ht := range ring.tokens {
					if ht.token.String() == ts && ht.host == h {
						found = true
					}
				}
				owners = owners && found
			}
		}
		vAssert(owners, "C10/ring/each-token-keeps-its-owner")
	}
	// a lookup on this ring does not panic either
	h, _ := ring.GetHostForToken(ring.partitioner.Hash([]byte("k")))
	vAssert(h == a || h == b, "C10/ring/lookup-finds-a-member")
	vObserve("n", len(ring.tokens))
}
