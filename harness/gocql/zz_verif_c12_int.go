//go:build go1.18

package gocql

// C12 / C02 cells: integer CQL types x Go integer source types.
// Bound "cql": 0 tinyint 1 smallint 2 int 3 bigint 4 counter 5 varint. Bound "proto": protocol version.

type vSigned interface {
	~int8 | ~int16 | ~int32 | ~int64 | ~int
}
type vUnsigned interface {
	~uint8 | ~uint16 | ~uint32 | ~uint64 | ~uint
}

func vCQLInt() (NativeType, int, string) {
	p := byte(vBound("proto"))
	switch vBound("cql") {
	case 0:
		return NativeType{proto: p, typ: TypeTinyInt}, 1, "tinyint"
	case 1:
		return NativeType{proto: p, typ: TypeSmallInt}, 2, "smallint"
	case 2:
		return NativeType{proto: p, typ: TypeInt}, 4, "int"
	case 3:
		return NativeType{proto: p, typ: TypeBigInt}, 8, "bigint"
	case 4:
		return NativeType{proto: p, typ: TypeCounter}, 8, "counter"
	}
	return NativeType{proto: p, typ: TypeVarint}, 0, "varint"
}

func vhIntS[S vSigned](v S, sname string) {
	info, n, tname := vCQLInt()
	pre := tname + "/" + sname
	data, err := Marshal(info, v)
	x := int64(v)
	in := n == 0 || refFits(x, n)
	if in {
		vAssert(err == nil, "C12/"+pre+"/in-domain-no-error")
		var want []byte
		if n == 0 {
			want = refVarint(x)
		} else {
			want = refBE(x, n)
		}
		vAssert(err != nil || refBytesEq(data, want), "C12/"+pre+"/bytes")
	}
	if err == nil {
		var back S
		e2 := Unmarshal(info, data, &back)
		vAssert(e2 == nil && back == v, "C02/"+pre+"/roundtrip-same-type")
		if in {
			var b64 int64
			e3 := Unmarshal(info, data, &b64)
			vAssert(e3 == nil && b64 == x, "C02/"+pre+"/roundtrip-int64")
		}
		vObserve("len", len(data))
	}
}

func vhIntU[S vUnsigned](v S, sname string) {
	info, n, tname := vCQLInt()
	pre := tname + "/" + sname
	data, err := Marshal(info, v)
	x := uint64(v)
	in := x>>63 == 0 && (n == 0 || refFits(int64(x), n))
	if n == 0 {
		// varint holds every integer; the driver documents the >= 2^63 range only for uint64
		// (other unsigned sources return an "out of range" error there, which C02 allows)
		in = x>>63 == 0 || sname == "uint64"
	}
	if in {
		vAssert(err == nil, "C12/"+pre+"/in-domain-no-error")
		var want []byte
		if n == 0 {
			want = refVarintU(x)
		} else {
			want = refBE(int64(x), n)
		}
		vAssert(err != nil || refBytesEq(data, want), "C12/"+pre+"/bytes")
	}
	if err == nil {
		var back S
		e2 := Unmarshal(info, data, &back)
		vAssert(e2 == nil && back == v, "C02/"+pre+"/roundtrip-same-type")
		if in {
			var b64 uint64
			e3 := Unmarshal(info, data, &b64)
			vAssert(e3 == nil && b64 == x, "C02/"+pre+"/roundtrip-uint64")
		}
		vObserve("len", len(data))
	}
}

func vh_int_i8()  { vhIntS(vI8("v"), "int8") }
func vh_int_i16() { vhIntS(vI16("v"), "int16") }
func vh_int_i32() { vhIntS(vI32("v"), "int32") }
func vh_int_i64() { vhIntS(vI64("v"), "int64") }
func vh_int_int() { vhIntS(vInt("v"), "int") }
func vh_int_u8()  { vhIntU(vU8("v"), "uint8") }
func vh_int_u16() { vhIntU(vU16("v"), "uint16") }
func vh_int_u32() { vhIntU(vU32("v"), "uint32") }
func vh_int_u64() { vhIntU(vU64("v"), "uint64") }
func vh_int_uint() { vhIntU(vUint("v"), "uint") }

// named integer types go through the reflect fallback
type vNamedI32 int32
type vNamedI64 int64
type vNamedU16 uint16

func vh_int_named_i32() { vhIntS(vNamedI32(vI32("v")), "named-int32") }
func vh_int_named_i64() { vhIntS(vNamedI64(vI64("v")), "named-int64") }
func vh_int_named_u16() { vhIntU(vNamedU16(vU16("v")), "named-uint16") }

// decode direction: any n-byte two's complement encoding decodes to its value
func vh_int_decode() {
	info, n, tname := vCQLInt()
	var data []byte
	if n == 0 {
		data = vBytes("d", 8)
		vAssume(len(data) >= 1)
	} else {
		data = vBytesN("d", n)
	}
	var want int64
	for i := range data {
		want = want<<8 | int64(data[i])
	}
	if k := len(data); k < 8 {
		sh := uint(64 - 8*k)
		want = (want << sh) >> sh
	}
	var got int64
	err := Unmarshal(info, data, &got)
	vAssert(err == nil && got == want, "C12/"+tname+"/decode-int64")
	vObserve("got", got)
}
