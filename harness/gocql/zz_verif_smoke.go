package gocql

import "encoding/binary"

// vh_smoke exercises the engine itself (not a property).
func vh_smoke() {
	x := vU32("x")
	b := make([]byte, 4)
	binary.BigEndian.PutUint32(b, x)
	y := binary.BigEndian.Uint32(b)
	vAssert(x == y, "smoke/roundtrip")
	vObserve("y", y)
	vAssert(x != 12345, "smoke/find")
}
