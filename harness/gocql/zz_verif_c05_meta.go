package gocql

import (
	"context"

	"github.com/gocql/gocql/internal/lru"
)

// ---- C05: what the driver does with metadata the server sent, after the parser accepted it ----

// (1) A PREPARED response as the real parser reads it (protocol 4: partition key indexes are part
// of the frame) with arbitrary index values, column count 0..2 and the no-metadata flag, then the
// routing information the token-aware policy derives from it in the caller's goroutine
// (Session.routingKeyInfo, createRoutingKey). A frame the parser accepts must not make them panic.
func vh_prepared_pk_indexes() {
	s := &Session{stmtsLRU: &preparedLRU{lru: lru.New(4)}, logger: vNopLogger{}}
	s.routingKeyInfoCache.lru = lru.New(4)
	c := &Conn{session: s, host: &HostInfo{hostId: "00000000-0000-0000-0000-000000000001"}, version: 4, currentKeyspace: "ks", ctx: context.Background(), logger: vNopLogger{}}
	vRKConn = c
	vRKMeta = &KeyspaceMetadata{Name: "ks", Tables: map[string]*TableMetadata{"t": {Keyspace: "ks", Name: "t", PartitionKey: []*ColumnMetadata{{Name: "a"}}}}}
	n := vChoose("columns", 3)
	cols := []vCol{{ks: "ks", tbl: "t", name: "a", t: vType{id: uint16(TypeInt)}}, {ks: "ks", tbl: "t", name: "b", t: vType{id: uint16(TypeInt)}}}[:n]
	m := vMeta{ncols: n, cols: cols}
	if vBool("no_metadata_flag") {
		m.flags |= 4
	}
	var pk []uint16
	for i, k := 0, vChoose("pk_count", 3); i < k; i++ {
		pk = append(pk, vU16("pk_index"))
	}
	e := &vEnc{}
	e.i32(4) // kind: prepared
	e.shortBytes([]byte{1})
	e.meta(m, true, 4, pk)
	e.meta(vMeta{}, false, 4, nil)
	f := vFramerWith(c, opResult, e.b)
	fr, err := f.parseFrame()
	if err != nil {
		vObserve("rejected", true)
		return // reported as an error: fine
	}
	x, ok := fr.(*resultPreparedFrame)
	if !ok {
		return
	}
	// what Conn.prepareStatement stores for the statement
	fl := &inflightPrepare{done: make(chan struct{}), preparedStatment: &preparedStatment{id: x.preparedID, request: x.reqMeta, response: x.respMeta}}
	close(fl.done)
	stmt := "SELECT b FROM t WHERE a=? AND b=?"
	s.stmtsLRU.add(s.stmtsLRU.keyFor(c.host.HostID(), c.currentKeyspace, stmt), fl)
	info, ierr := s.routingKeyInfo(context.Background(), stmt)
	vAssert(ierr != nil || info == nil || len(info.indexes) == len(info.types), "C05/prepared/routing-info-has-a-type-per-index")
	if ierr == nil && info != nil {
		for _, ix := range info.indexes {
			vAssert(ix >= 0 && ix < n, "C05/prepared/routing-index-names-a-described-bind-marker")
		}
		vWitness("accepted-frame-with-routing-info", true)
		// the caller bound one value per marker the frame described
		values := make([]interface{}, n)
		for i := range values {
			values[i] = 1
		}
		key, kerr := createRoutingKey(info, values)
		vObserve("key", kerr == nil && len(key) >= 0)
	}
	vObserve("rejected", false)
}

// (2) A rows result whose column has an arbitrary (well-formed) type tree of depth <= 2, consumed
// through the generic consumers that pick the Go type themselves (RowData / MapScan / SliceMap):
// whatever the tree, they report values or an error, they do not panic.
func vRowTypeTree(depth int) TypeInfo {
	nat := func(t Type) NativeType { return NativeType{proto: 4, typ: t} }
	k := 7
	if depth > 0 {
		k = 11
	}
	switch vChoose("type", k) {
	case 1:
		return nat(TypeBlob)
	case 2:
		return nat(TypeVarchar)
	case 3:
		return nat(TypeInet)
	case 4:
		return nat(TypeUUID)
	case 5:
		return nat(TypeTimestamp)
	case 6:
		// the type descriptor admits a tuple with no element types ([short] n = 0)
		return TupleTypeInfo{NativeType: nat(TypeTuple)}
	case 7:
		return CollectionType{NativeType: nat(TypeList), Elem: vRowTypeTree(depth - 1)}
	case 8:
		return CollectionType{NativeType: nat(TypeMap), Key: vRowTypeTree(depth - 1), Elem: nat(TypeInt)}
	case 9:
		return TupleTypeInfo{NativeType: nat(TypeTuple), Elems: []TypeInfo{vRowTypeTree(depth - 1), nat(TypeInt)}}
	case 10:
		return UDTTypeInfo{NativeType: nat(TypeUDT), KeySpace: "k", Name: "u", Elements: []UDTField{{Name: "f", Type: vRowTypeTree(depth - 1)}}}
	}
	return nat(TypeInt)
}

// the same through the real type descriptor reader: a CUSTOM type (id 0) whose class string is one of
// the marshal classes the reader maps to native ids - including the bare composite ones
var vCustomClasses = []string{"TupleType", "ListType", "SetType", "MapType", "Int32Type", "BytesType", "DurationType", "NoSuchType"}

func vWireCustomType() (ti TypeInfo, ok bool) {
	k := vChoose("custom_class", len(vCustomClasses))
	cls := "org.apache.cassandra.db.marshal." + vCustomClasses[k]
	e := &vEnc{}
	e.u16(0)
	e.str(cls)
	switch vCustomClasses[k] {
	case "TupleType":
		e.u16(1)
		e.u16(9) // tuple<int>, should the reader go on to read element types
	case "ListType", "SetType":
		e.u16(9)
	case "MapType":
		e.u16(9)
		e.u16(9)
	}
	f := &framer{proto: 4, buf: e.b, header: &frameHeader{version: 0x84, op: opResult}}
	defer func() {
		if r := recover(); r != nil {
			if _, isRT := r.(interface{ RuntimeError() }); isRT {
				panic(r)
			}
			ti, ok = nil, false // the reader refused the descriptor (parseFrame turns this into an error)
		}
	}()
	return f.readTypeInfo(), true
}

func vh_row_data_types() {
	var ti TypeInfo
	if vBool("type_comes_from_the_wire_as_custom") {
		var ok bool
		if ti, ok = vWireCustomType(); !ok {
			return
		}
	} else {
		ti = vRowTypeTree(vBound("depth"))
	}
	cells := 1
	if t, ok := ti.(TupleTypeInfo); ok {
		cells = len(t.Elems)
	}
	body := []byte{0xff, 0xff, 0xff, 0xff} // one column, its cell is null (a tuple is one cell holding its elements)
	it := &Iter{framer: &framer{proto: 4, buf: body, header: &frameHeader{version: 0x84, op: opResult}}, numRows: 1,
		meta: resultMetadata{columns: []ColumnInfo{{Keyspace: "k", Table: "t", Name: "c", TypeInfo: ti}}, colCount: 1, actualColCount: cells}}
	switch vChoose("consumer", 3) {
	case 0:
		rd, err := it.RowData()
		vAssert(err != nil || len(rd.Values) == cells, "C05/rows/generic-destinations-one-per-cell-or-an-error")
	case 1:
		m := map[string]interface{}{}
		ok := it.MapScan(m)
		vAssert(ok || it.err != nil, "C05/rows/generic-consumer-reports-a-row-or-an-error")
	default:
		ms, err := it.SliceMap()
		vAssert(err != nil || len(ms) == 1, "C05/rows/generic-consumer-reports-a-row-or-an-error")
	}
}

// (3) Schema tables turned into keyspace metadata (compileMetadata, protocol >= 2 path): what the
// rows of system_schema.tables / columns / functions / aggregates say is data from the server. One
// table, 0..2 columns of any kind with a position of -1..2, 0..1 function, 0..1 aggregate whose
// state / final function names may name that function, another one, or nothing (FINALFUNC is
// optional in CREATE AGGREGATE). No panic in the goroutine asking for the metadata.
func vh_compile_metadata() {
	ks := &KeyspaceMetadata{Name: "ks"}
	tables := []TableMetadata{{Keyspace: "ks", Name: "t"}}
	if vBool("cassandra_2_key_validator") {
		tables[0].KeyValidator = []string{"org.apache.cassandra.db.marshal.Int32Type", "org.apache.cassandra.db.marshal.CompositeType(org.apache.cassandra.db.marshal.Int32Type,org.apache.cassandra.db.marshal.UTF8Type)"}[vChoose("key_validator", 2)]
	}
	var columns []ColumnMetadata
	names := []string{"a", "b"}
	for i, n := 0, vChoose("columns", 3); i < n; i++ {
		c := ColumnMetadata{Keyspace: "ks", Table: "t", Name: names[i], ClusteringOrder: "none", Validator: "int"}
		c.Kind = []ColumnKind{ColumnPartitionKey, ColumnClusteringKey, ColumnRegular}[vChoose("kind", 3)]
		c.ComponentIndex = vChoose("position", 3) - 1
		if i == 0 && vBool("other_table") {
			c.Table = "gone"
		}
		columns = append(columns, c)
	}
	var functions []FunctionMetadata
	if vBool("has_function") {
		functions = append(functions, FunctionMetadata{Keyspace: "ks", Name: "f"})
	}
	var aggregates []AggregateMetadata
	if vBool("has_aggregate") {
		fn := []string{"f", "g", ""}
		aggregates = append(aggregates, AggregateMetadata{Keyspace: "ks", Name: "agg", stateFunc: fn[vChoose("state_func", 2)], finalFunc: fn[vChoose("final_func", 3)]})
	}
	compileMetadata(4, ks, tables, columns, functions, aggregates, nil, nil, vNopLogger{})
	t := ks.Tables["t"]
	vAssert(t != nil, "C05/schema/table-is-listed")
	if len(aggregates) == 1 {
		a := ks.Aggregates["agg"]
		vAssert(a != nil, "C05/schema/aggregate-is-listed")
		if a != nil && len(functions) == 1 && aggregates[0].stateFunc == "f" {
			vAssert(a.StateFunc.Name == "f", "C05/schema/aggregate-names-its-state-function")
		}
	}
	vObserve("pk", len(t.PartitionKey))
}

// (4) MapScanCAS / MapExecuteBatchCAS read the "[applied]" column of whatever rows result came back:
// a result without that column (the statement was not conditional), or a row that could not be read
// (body shorter than declared), is an error for the caller, not a panic in its goroutine.
var vCASIter *Iter

func vstubQueryIter(q *Query) *Iter                      { return vCASIter }
func vstubSessionExecuteBatch(s *Session, b *Batch) *Iter { return vCASIter }

func vh_map_scan_cas() {
	nat := func(t Type) NativeType { return NativeType{proto: 4, typ: t} }
	hasApplied := vBool("result_has_applied_column")
	appliedVal := vBool("applied")
	truncated := vBool("row_is_cut_short")
	var cols []ColumnInfo
	e := &vEnc{}
	if hasApplied {
		cols = append(cols, ColumnInfo{Keyspace: "k", Table: "t", Name: "[applied]", TypeInfo: nat(TypeBoolean)})
		v := byte(0)
		if appliedVal {
			v = 1
		}
		e.bytes([]byte{v}, false)
	}
	cols = append(cols, ColumnInfo{Keyspace: "k", Table: "t", Name: "a", TypeInfo: nat(TypeInt)})
	e.bytes([]byte{0, 0, 0, 5}, false)
	body := e.b
	if truncated {
		body = body[:vChoose("kept", len(body))]
	}
	mk := func() *Iter {
		return &Iter{framer: &framer{proto: 4, buf: append([]byte(nil), body...), header: &frameHeader{version: 0x84, op: opResult}}, numRows: 1,
			meta: resultMetadata{columns: cols, colCount: len(cols), actualColCount: len(cols)}}
	}
	vCASIter = mk()
	q := &Query{stmt: "UPDATE t SET a=5 WHERE k=1 IF a=4", session: &Session{}}
	dest := map[string]interface{}{}
	applied, err := q.MapScanCAS(dest)
	if hasApplied && !truncated {
		vAssert(err == nil && applied == appliedVal, "C05/cas/applied-is-what-the-row-says")
	} else {
		vAssert(err != nil && !applied, "C05/cas/a-result-without-a-readable-applied-column-is-an-error")
	}
	vCASIter = mk()
	dest2 := map[string]interface{}{}
	applied2, _, err2 := (&Session{}).MapExecuteBatchCAS(&Batch{}, dest2)
	if hasApplied && !truncated {
		vAssert(err2 == nil && applied2 == appliedVal, "C05/cas/applied-is-what-the-row-says")
	} else {
		vAssert(err2 != nil && !applied2, "C05/cas/a-result-without-a-readable-applied-column-is-an-error")
	}
}
