package gocql

import "net"

// ---- C16: the driver's picture of the cluster follows what the cluster reports ----

var vIDs = []string{"u1", "u2", "u3"}
var vAddrs = []net.IP{net.IPv4(10, 0, 0, 1), net.IPv4(10, 0, 0, 2), net.IPv4(10, 0, 0, 3)}

// with bound nat=1 every node's client-facing (rpc / connect) address differs from its node-to-node (peer) address
var vNatAddrs = []net.IP{net.IPv4(192, 168, 0, 1), net.IPv4(192, 168, 0, 2), net.IPv4(192, 168, 0, 3)}

// nat=2: the mapping from node-to-node address to client-facing address may differ between two reports
// (vNatShift is chosen per report), so a node can change ONE of its two addresses and keep the other
var vNatShift int

func vConnectAddr(ad int) net.IP {
	switch vBound("nat") {
	case 1:
		return vNatAddrs[ad]
	case 2:
		return vNatAddrs[(ad+vNatShift)%len(vNatAddrs)]
	}
	return vAddrs[ad]
}

// ghost state of the stubbed pool / refresher
var (
	vPoolHosts    map[string]bool
	vRefreshCalls int
	vReported     []*HostInfo
)

func vstubPoolAddHost(p *policyConnPool, host *HostInfo) { vPoolHosts[host.HostID()] = true }
func vstubPoolRemoveHost(p *policyConnPool, hostID string) {
	delete(vPoolHosts, hostID)
}
func vstubDebounceRefresh(s *Session) { vRefreshCalls++ }
func vstubGetHosts(r *ringDescriber) ([]*HostInfo, string, error) {
	return vReported, "Murmur3Partitioner", nil
}
func vstubSleep(d int64) {}

func vNewSession(rejected string) *Session {
	s := &Session{policy: RoundRobinHostPolicy(), logger: vNopLogger{}, pool: &policyConnPool{}}
	switch vBound("policy") {
	case 1:
		s.policy = DCAwareRoundRobinPolicy("dc-local")
	case 2:
		s.policy = RackAwareRoundRobinPolicy("dc-local", "rack-local")
	}
	if rejected != "" {
		s.cfg.HostFilter = HostFilterFunc(func(h *HostInfo) bool { return h.HostID() != rejected })
	}
	vPoolHosts = map[string]bool{}
	vRefreshCalls = 0
	return s
}

// vReport: n hosts with distinct ids and distinct addresses chosen by the environment
func vReport(n int) []*HostInfo {
	var out []*HostInfo
	if vBound("nat") == 2 {
		vNatShift = vChoose("nat_shift", 2)
	}
	usedID, usedAddr := map[int]bool{}, map[int]bool{}
	for i := 0; i < n; i++ {
		id := vChoose("id", len(vIDs))
		ad := vChoose("addr", len(vAddrs))
		vAssume(!usedID[id] && !usedAddr[ad]) // a peer list names each node and each address once
		usedID[id], usedAddr[ad] = true, true
		dc, rack := vPlace(id)
		out = append(out, &HostInfo{hostId: vIDs[id], connectAddress: vConnectAddr(ad), peer: vAddrs[ad], port: 9042, state: NodeUp, dataCenter: dc, rack: rack})
	}
	return out
}

// vPolicyHosts: every host the selection policy currently knows, whatever tier it files it under
func vPolicyHosts(s *Session) []*HostInfo {
	switch p := s.policy.(type) {
	case *dcAwareRR:
		return append(append([]*HostInfo(nil), p.localHosts.get()...), p.remoteHosts.get()...)
	case *rackAwareRR:
		var out []*HostInfo
		for i := range p.hosts {
			out = append(out, p.hosts[i].get()...)
		}
		return out
	}
	return s.policy.(*roundRobinHostPolicy).hosts.get()
}

// vPlace: datacenter and rack of a reported node (fixed per host id, so a node keeps them across reports):
// u1 local rack, u2 local datacenter / other rack, u3 remote datacenter
func vPlace(id int) (string, string) {
	switch id {
	case 0:
		return "dc-local", "rack-local"
	case 1:
		return "dc-local", "rack-other"
	}
	return "dc-remote", "rack-x"
}

func vCheckRing(s *Session, reported []*HostInfo, rejected string, pre string) {
	var want []*HostInfo
	for _, h := range reported {
		if h.hostId != rejected {
			want = append(want, h)
		}
	}
	r := &s.ring
	okKeys := len(r.hosts) == len(want)
	for _, h := range want {
		got, has := r.hosts[h.hostId]
		okKeys = okKeys && has && got.connectAddress.Equal(h.connectAddress)
	}
	vAssert(okKeys, pre+"/known-nodes-equal-last-report")
	ids := map[string]bool{}
	listOK := len(r.hostList) == len(want)
	for _, h := range r.hostList {
		if ids[h.hostId] {
			listOK = false
		}
		ids[h.hostId] = true
		_, has := r.hosts[h.hostId]
		listOK = listOK && has
	}
	vAssert(listOK, pre+"/host-list-is-the-same-set-without-duplicates")
	byAddr := true
	for _, h := range r.hosts {
		got, ok := r.getHostByIP(h.nodeToNodeAddress().String())
		byAddr = byAddr && ok && got == h
	}
	vAssert(byAddr, pre+"/lookup-by-address-finds-each-known-node")
	// ... and nothing else: an address no known node has must not resolve (a stale entry hands a nil or
	// departed host to the status-event handlers)
	noStale := true
	for _, all := range [][]net.IP{vAddrs, vNatAddrs} {
		for _, a := range all {
			got, ok := r.getHostByIP(a.String())
			if ok {
				noStale = noStale && got != nil && r.hosts[got.hostId] == got && got.nodeToNodeAddress().Equal(a)
			}
		}
	}
	vAssert(noStale, pre+"/lookup-by-address-finds-only-known-nodes")
	// a node reported down (and not announced up again since) stays in the ring but is neither pooled nor
	// offered until it is connected again
	var offered []*HostInfo
	for _, h := range want {
		cur := r.hosts[h.hostId]
		if h.hostId == vRingDownOnly && cur != nil && cur.state == NodeDown {
			continue // (a node that came back under another address was added anew and is up)
		}
		offered = append(offered, h)
	}
	want = offered
	poolOK := len(vPoolHosts) == len(want)
	for _, h := range want {
		poolOK = poolOK && vPoolHosts[h.hostId]
	}
	vAssert(poolOK, pre+"/pool-follows-the-ring")
	pol := vPolicyHosts(s)
	polOK := len(pol) == len(want)
	for _, h := range want {
		found := false
		for _, p := range pol {
			if p.hostId == h.hostId {
				found = true
			}
		}
		polOK = polOK && found
	}
	vAssert(polOK, pre+"/policy-follows-the-ring")
}

var vRingDownOnly string

func vh_refresh_history() {
	vRingDownOnly = ""
	rejected := ""
	if vBool("filter") {
		rejected = vIDs[vChoose("rejected", len(vIDs))]
	}
	s := vNewSession(rejected)
	rd := &ringDescriber{session: s}
	n1 := vChoose("n1", vBound("hosts")+1)
	vReported = vReport(n1)
	first := vReported
	err := refreshRing(rd)
	vAssert(err == nil, "C16/refresh/first-succeeds")
	vCheckRing(s, first, rejected, "C16/refresh1")
	// between the refreshes a known node may go down and be announced up again (status events, each in a
	// burst of its own): it is then pooled and offered again while still marked down (until it connects)
	if vBound("flap") == 1 && n1 > 0 && vBool("a_node_flaps_between_the_refreshes") {
		h := first[vChoose("flapping", n1)]
		addr := h.peer
		if addr == nil {
			addr = h.connectAddress
		}
		s.handleNodeEvent([]frame{&statusChangeEventFrame{change: "DOWN", host: addr, port: 9042}})
		if h.hostId != rejected {
			vRingDownOnly = h.hostId
		}
		if vBool("and_is_announced_up_again") {
			s.handleNodeEvent([]frame{&statusChangeEventFrame{change: "UP", host: addr, port: 9042}})
			vRingDownOnly = ""
		}
	}
	n2 := vChoose("n2", vBound("hosts")+1)
	vReported = vReport(n2)
	second := vReported
	// witnesses: an address of the first report is now used by a different host id, either because the
	// old owner is gone (node replaced) or because the old owner moved to another address in the same report
	replaced, moved := false, false
	for _, a := range first {
		for _, b := range second {
			if a.connectAddress.Equal(b.connectAddress) && a.hostId != b.hostId && a.hostId != rejected && b.hostId != rejected {
				still := false
				for _, c := range second {
					if c.hostId == a.hostId {
						still = true
					}
				}
				if still {
					moved = true
				} else {
					replaced = true
				}
			}
		}
	}
	vWitness("address-reused-after-owner-vanished", replaced)
	vWitness("address-taken-over-while-owner-moves", moved)
	err = refreshRing(rd)
	vAssert(err == nil, "C16/refresh/second-succeeds")
	vCheckRing(s, second, rejected, "C16/refresh2")
	vObserve("n", len(s.ring.hosts))
}

// status / topology events on a ring of two known hosts
func vh_node_events() {
	s := vNewSession("")
	rd := &ringDescriber{session: s}
	vReported = []*HostInfo{
		{hostId: "u1", connectAddress: vConnectAddr(0), peer: vAddrs[0], port: 9042, state: NodeUp},
		{hostId: "u2", connectAddress: vConnectAddr(1), peer: vAddrs[1], port: 9042, state: NodeUp},
	}
	vAssume(refreshRing(rd) == nil)
	n := vBound("events")
	var frames []frame
	topo := 0
	last := map[int]string{}
	var order []int
	for i := 0; i < n; i++ {
		ad := vChoose("addr", 3)
		switch vChoose("kind", 4) {
		case 0:
			frames = append(frames, &statusChangeEventFrame{change: "UP", host: vAddrs[ad], port: 9042})
			if _, seen := last[ad]; !seen {
				order = append(order, ad)
			}
			last[ad] = "UP"
		case 1:
			frames = append(frames, &statusChangeEventFrame{change: "DOWN", host: vAddrs[ad], port: 9042})
			if _, seen := last[ad]; !seen {
				order = append(order, ad)
			}
			last[ad] = "DOWN"
		case 2:
			frames = append(frames, &topologyChangeEventFrame{change: "NEW_NODE", host: vAddrs[ad], port: 9042})
			topo++
		default:
			frames = append(frames, &topologyChangeEventFrame{change: "REMOVED_NODE", host: vAddrs[ad], port: 9042})
			topo++
		}
	}
	vRefreshCalls = 0
	s.handleNodeEvent(frames)
	// bounded refreshes: one for any number of topology events, one per UP of an unknown address
	want := 0
	if topo > 0 {
		want = 1
	}
	if last[2] == "UP" {
		want++
	}
	vAssert(vRefreshCalls == want, "C16/events/burst-gives-bounded-refreshes")
	// per address only the last status event is acted on
	for ad := 0; ad < 2; ad++ {
		h := s.ring.hosts[vIDs[ad]]
		inPolicy := false
		for _, p := range vPolicyHosts(s) {
			if p == h {
				inPolicy = true
			}
		}
		switch last[ad] {
		case "DOWN":
			vAssert(h.state == NodeDown && !inPolicy && !vPoolHosts[h.hostId], "C16/events/down-node-not-offered-nor-pooled")
			// ... until it is connected again
			s.handleNodeConnected(h)
			back := false
			for _, p := range vPolicyHosts(s) {
				if p == h {
					back = true
				}
			}
			vAssert(h.state == NodeUp && back, "C16/events/connected-node-offered-again")
		case "UP", "":
			vAssert(inPolicy && vPoolHosts[h.hostId], "C16/events/up-node-pooled-and-offered")
		}
	}
	vObserve("refreshes", vRefreshCalls)
}
