package gocql

import (
	"context"
	"errors"
	"io"
	"net"
	"sync"
	"time"

	"github.com/gocql/gocql/internal/streams"
)

// ---- C01 / C06: connection multiplexing, thread-modular (one goroutine at a time) ----
//
// Rely/guarantee table T1 of DESIGN.md section 5. The goroutine under analysis runs the real
// code; the stream allocator, the writer, timers, contexts and the other goroutines' effects on
// the shared state (closed, calls) are the environment below.

var (
	vConn       *Conn
	vStreamID   int
	vGotStream  bool
	vClears     []int
	vClearOK    bool // every Clear happened after the call was removed from calls (or conn closed)
	vCall       *callReq
	vWriteCalls int
	vWriteN     int
	vWriteErr   error
	vRegistered bool // the call was registered under its id when the write started
	vTimerC     chan time.Time
	vHandled    []error
)

var vErrNet = errors.New("verif: other write error")

func vstubGetStream(s *streams.IDGenerator) (int, bool) {
	if !vBool("stream_available") {
		return 0, false
	}
	id := int(vI16("stream_id"))
	// C08: the allocator returns an id in 1..N-1 that is not handed out; by invariant I1 a registered
	// call holds its id, so the id is not in calls
	vAssume(id >= 1 && id < s.NumStreams)
	if vConn.calls != nil {
		_, busy := vConn.calls[id]
		vAssume(!busy)
	}
	vStreamID, vGotStream = id, true
	return id, true
}

func vstubClear(s *streams.IDGenerator, id int) bool {
	vClears = append(vClears, id)
	if !vConn.closed {
		if _, still := vConn.calls[id]; still {
			vClearOK = false
		}
		// from here on the id is free: another request may reserve it and register under it at once
		if vConn.calls != nil && vBool("released_id_is_reused_at_once") {
			vReusedBy = &callReq{streamID: id, resp: make(chan callResp), timeout: make(chan struct{})}
			vConn.calls[id] = vReusedBy
		}
	}
	return true
}

// the request that took over an id the moment it was released (nil: nobody did)
var vReusedBy *callReq

// whatever the code under analysis did after releasing an id, it left the next user's registration alone
func vReuseIntact() bool {
	if vReusedBy == nil || vConn.closed || vConn.calls == nil {
		return true
	}
	return vConn.calls[vReusedBy.streamID] == vReusedBy
}

// the environment step at every lock acquisition: the closer may have run meanwhile
func vOnLock(mu *sync.Mutex) {
	if mu == &vConn.mu && !vConn.closed && vBool("closed_meanwhile") {
		vConn.closed = true
		vConn.calls = nil
	}
}

type vWriter struct{}

func (vWriter) writeContext(ctx context.Context, p []byte) (int, error) {
	vWriteCalls++
	if c, ok := vConn.calls[vStreamID]; ok && c != nil {
		vCall = c
		vRegistered = c.streamID == vStreamID
	} else {
		vRegistered = vConn.closed // only a closing connection may have dropped the registration
	}
	// the receive loop may deliver the response at any time after the write started (rely G6)
	if vCall != nil && vBool("response_arrives") {
		var r callResp
		if vBool("response_is_error") {
			r.err = vErrIO
		} else {
			r.framer = &framer{header: &frameHeader{version: protoVersion(vConn.version | 0x80)}}
			if vBool("response_other_version") {
				r.framer.header.version = protoVersion((vConn.version ^ 1) | 0x80)
			}
		}
		// recv removes the call from calls (under the lock) before it delivers: guarantee G4
		delete(vConn.calls, vStreamID)
		vChanPush(vCall.resp, r)
	}
	return vWriteN, vWriteErr
}

func vstubNewTimer(d time.Duration) *time.Timer {
	vTimerC = make(chan time.Time, 2)
	vTimerC <- time.Time{}
	return &time.Timer{C: vTimerC}
}
func vstubTimerReset(t *time.Timer, d time.Duration) bool {
	if vBool("timer_fires") {
		vTimerC <- time.Time{}
	}
	return true
}
// Stop reports false for a timer that has already fired (time.Timer contract); vFiredTimer is the timer of a
// request that left through its timeout: exec consumed the tick, the channel is empty
var vFiredTimer *time.Timer

func vstubTimerStop(t *time.Timer) bool { return t == nil || t != vFiredTimer }

type vErrHandler struct{}

func (vErrHandler) HandleError(conn *Conn, err error, closed bool) { vHandled = append(vHandled, err) }

type vNetConn struct{ closed int }

func (c *vNetConn) Read(b []byte) (int, error)         { return 0, io.EOF }
func (c *vNetConn) Write(b []byte) (int, error)        { return len(b), nil }
func (c *vNetConn) Close() error                       { c.closed++; return nil }
func (c *vNetConn) LocalAddr() net.Addr                { return nil }
func (c *vNetConn) RemoteAddr() net.Addr               { return nil }
func (c *vNetConn) SetDeadline(t time.Time) error      { return nil }
func (c *vNetConn) SetReadDeadline(t time.Time) error  { return nil }
func (c *vNetConn) SetWriteDeadline(t time.Time) error { return nil }

type vFailingBuilder struct{}

func (vFailingBuilder) buildFrame(f *framer, streamID int) error {
	vCaptureCall(streamID)
	return vErrIO
}

// vOKBuilder builds an OPTIONS frame; like vFailingBuilder it first notes the call exec registered
// (buildFrame is the first thing exec does after addCall succeeded).
type vOKBuilder struct{}

func (vOKBuilder) buildFrame(f *framer, streamID int) error {
	vCaptureCall(streamID)
	return (&writeOptionsFrame{}).buildFrame(f, streamID)
}

func vCaptureCall(streamID int) {
	vBuildCalls++
	if c, ok := vConn.calls[streamID]; ok && c != nil {
		vCall = c
	}
}

var vBuildCalls int

func vNewConn() *Conn {
	ver := byte(vBound("version"))
	c := &Conn{version: ver, streams: streams.New(int(ver)), calls: map[int]*callReq{}, w: vWriter{}, logger: vNopLogger{}, errorHandler: vErrHandler{}, conn: &vNetConn{}}
	cctx := &vCtx{done: make(chan struct{})}
	if vBool("conn_ctx_done") {
		close(cctx.done)
		cctx.err = context.Canceled
	}
	c.ctx = cctx
	c.cancel = func() {}
	vConn = c
	vStreamID, vGotStream, vClears, vClearOK, vCall, vWriteCalls, vRegistered, vHandled = 0, false, nil, true, nil, 0, false, nil
	vReusedBy = nil
	return c
}

func vIsClosed(ch chan struct{}) bool {
	select {
	case <-ch:
		return true
	default:
		return false
	}
}

func vh_exec() {
	c := vNewConn()
	if vBool("timeout_configured") {
		c.timeout = time.Second
	}
	// the deprecated global TimeoutLimit: when exceeded, the timed-out request itself closes the connection
	TimeoutLimit = 0
	if vBool("timeout_limit_set") {
		TimeoutLimit = 1
		c.timeouts = int64(vChoose("timeouts_so_far", 3))
	}
	// an unrelated outstanding call
	other := int(vI16("other_stream"))
	vAssume(other >= 1 && other < c.streams.NumStreams)
	otherCall := &callReq{streamID: other, resp: make(chan callResp), timeout: make(chan struct{})}
	vEnvChan(otherCall.resp) // its caller is waiting for the response (a caller that gave up would have closed timeout)
	if vBool("other_outstanding") {
		c.calls[other] = otherCall
	}
	// the write outcome
	L := 0
	switch vChoose("write_outcome", 5) {
	case 0:
		vWriteErr = nil
	case 1:
		vWriteErr, vWriteN = context.Canceled, 0
	case 2:
		vWriteErr, vWriteN = context.DeadlineExceeded, 0
	case 3:
		vWriteErr = context.DeadlineExceeded
		vWriteN = vInt("partial")
		vAssume(vWriteN > 0 && vWriteN < 100)
	default:
		vWriteErr, vWriteN = vErrNet, vInt("n")
		vAssume(vWriteN >= 0 && vWriteN < 100)
	}
	_ = L
	ctx := &vCtx{done: make(chan struct{})}
	ctxState := vChoose("caller_ctx", 3) // 0 live, 1 already done before the call, 2 done while waiting
	if ctxState == 1 {
		close(ctx.done)
		ctx.err = context.Canceled
	}
	var req frameBuilder = vOKBuilder{}
	vBuildCalls = 0
	buildFails := vBool("build_fails")
	if buildFails {
		req = vFailingBuilder{}
	}
	if ctxState == 2 {
		// becomes done after the early check: modelled by closing it now but reporting nil from the first Err()
		close(ctx.done)
		ctx.err = context.Canceled
		ctx.lateErr = true
	}
	f, err := c.exec(ctx, req, nil)

	vAssert((f != nil) != (err != nil), "C06/exec/exactly-one-outcome")
	vAssert(vClearOK, "C01/exec/stream-released-only-after-the-call-is-unregistered")
	vAssert(len(vClears) <= 1, "C06/exec/stream-released-at-most-once")
	vAssert(vReuseIntact(), "C01/exec/a-released-id-belongs-to-its-next-user")
	for _, id := range vClears {
		vAssert(id == vStreamID && vGotStream, "C01/exec/only-its-own-stream-is-released")
	}
	if !vGotStream {
		vAssert(err != nil && vWriteCalls == 0 && len(vClears) == 0, "C06/exec/immediate-refusal-writes-and-releases-nothing")
		return
	}
	if vWriteCalls > 0 {
		vAssert(vRegistered, "C01/exec/registered-under-its-id-before-writing")
		vAssert(vWriteCalls == 1, "C07/exec/one-write-of-the-whole-frame")
	}
	// the unrelated call is never touched
	if oc, ok := c.calls[other]; ok && other != vStreamID {
		vAssert(oc == otherCall && !vIsClosed(otherCall.timeout), "C01/exec/other-calls-untouched")
	}
	registered := vCall != nil
	if vBuildCalls > 0 {
		// buildFrame is reached only after addCall succeeded: the call was registered under its id
		vAssert(registered && vCall.streamID == vStreamID, "C01/exec/registered-under-its-id-before-building")
	}
	if registered {
		// C06: after addCall succeeded every exit received the response or closed call.timeout
		vAssert(vIsClosed(vCall.timeout), "C06/exec/exit-closes-timeout-so-the-closer-can-proceed")
	}
	released := len(vClears) == 1
	switch {
	case vWriteCalls == 0:
		// buildFrame failed or the connection was closing at addCall
		if registered || buildFails {
			_ = released
		}
	case vWriteErr != nil && (vWriteErr == context.Canceled || vWriteErr == context.DeadlineExceeded) && vWriteN == 0:
		vAssert(released, "C06/exec/write-not-started-releases-the-stream")
		vAssert(err == vWriteErr, "C06/exec/write-not-started-returns-the-context-error")
	case vWriteErr != nil:
		// partial or failed write: the id stays reserved and the connection is closed
		vAssert(!released, "C01/exec/failed-write-keeps-the-stream-reserved")
		vAssert(c.closed, "C07/exec/failed-write-closes-the-connection")
	default:
		// written: released exactly when the response was received (and not an error on a closed conn)
		gotResp := f != nil || (err != nil && err != ErrTimeoutNoResponse && err != ErrConnectionClosed && err != context.Canceled)
		if !gotResp {
			vAssert(!released, "C01/exec/timeout-or-cancel-keeps-the-stream-reserved")
		}
		if f != nil {
			vAssert(released, "C06/exec/response-received-releases-the-stream")
		}
	}
	vObserve("err", err != nil)
}

// ---- the receive loop ----

var (
	vHead       frameHeader
	vHeadErr    error
	vBodyResult int // 0 ok, 1 net error, 2 other error
	vDiscards   int
)

type vNetErr struct{}

func (vNetErr) Error() string   { return "verif: net error" }
func (vNetErr) Timeout() bool   { return false }
func (vNetErr) Temporary() bool { return false }

func vstubReadHeader(r io.Reader, p []byte) (frameHeader, error) { return vHead, vHeadErr }
// vGiveUpDuringBody: the caller of this call may time out / be cancelled while the body is being read
var vGiveUpDuringBody *callReq

// vReadFramers: every framer recv used to read a frame body (responses, events, reserved streams)
var vReadFramers []*framer

func vstubReadFrame(f *framer, r io.Reader, head *frameHeader) error {
	vReadFramers = append(vReadFramers, f)
	if c := vGiveUpDuringBody; c != nil && !vIsClosed(c.timeout) && vBool("caller_gives_up_while_the_body_is_read") {
		close(c.timeout)
	}
	switch vBodyResult {
	case 1:
		return vNetErr{}
	case 2:
		return vErrIO
	}
	f.header = head
	return nil
}
func vstubDiscard(c *Conn, head frameHeader) error { vDiscards++; return nil }

func vh_recv() {
	c := vNewConn()
	c.session = &Session{logger: vNopLogger{}}
	n := c.streams.NumStreams
	// two outstanding calls under distinct ids
	k1, k2 := int(vI16("k1")), int(vI16("k2"))
	vAssume(k1 >= 1 && k1 < n && k2 >= 1 && k2 < n && k1 != k2)
	c1 := &callReq{streamID: k1, resp: make(chan callResp), timeout: make(chan struct{})}
	c2 := &callReq{streamID: k2, resp: make(chan callResp), timeout: make(chan struct{})}
	vEnvChan(c1.resp)
	vEnvChan(c2.resp)
	vFiredTimer = nil
	if vBool("caller1_gave_up") {
		close(c1.timeout)
		if vBool("caller1_left_through_its_timeout") {
			c1.timer = &time.Timer{C: make(chan time.Time, 1)}
			vFiredTimer = c1.timer
		}
	}
	c.calls[k1] = c1
	if vBool("two_calls") {
		c.calls[k2] = c2
	}
	if vBool("already_closed") {
		c.closed = true
		c.calls = nil
	}
	vHead = frameHeader{version: protoVersion(c.version | 0x80), stream: int(vI16("stream")), op: opResult, length: 0}
	vHeadErr = nil
	if vBool("header_read_fails") {
		vHeadErr = vErrIO
	}
	vBodyResult = vChoose("body_read", 3)
	vDiscards = 0
	ctx := &vCtx{done: make(chan struct{})}
	if vBool("ctx_done") {
		close(ctx.done)
		ctx.err = context.Canceled
	}
	wasClosed := c.closed
	vGiveUpDuringBody = c1
	// C18: a negotiated compressor applies to everything the server sends, pushed events included: the framer
	// that reads any body must carry the connection's compressor (readFrame decompresses with it)
	var comp Compressor
	if vBool("compressor_negotiated") {
		comp = vComp{"c"}
		c.compressor = comp
	}
	vReadFramers = nil
	err := c.recv(ctx)
	vGiveUpDuringBody = nil
	for _, f := range vReadFramers {
		vAssert(f.compres == comp, "C18/recv/every-received-frame-is-read-with-the-negotiated-compressor")
	}

	s := vHead.stream
	sent1, sent2 := vSentOn(c1.resp), vSentOn(c2.resp)
	vAssert(sent1+sent2 <= 1, "C06/recv/delivers-at-most-once")
	// a frame is delivered only to the call registered under the header's stream
	if sent1 == 1 {
		vAssert(s == k1 && !wasClosed && vHeadErr == nil, "C01/recv/response-goes-to-the-call-of-its-stream")
	}
	if sent2 == 1 {
		vAssert(s == k2 && !wasClosed && vHeadErr == nil, "C01/recv/response-goes-to-the-call-of-its-stream")
	}
	// the stream is released by recv only when the caller had given up on exactly that call
	for _, id := range vClears {
		vAssert(id == s && s == k1 && vIsClosed(c1.timeout) && sent1 == 0, "C01/recv/releases-only-the-abandoned-call-of-that-stream")
	}
	vAssert(len(vClears) <= 1, "C06/recv/releases-at-most-once")
	vAssert(vReuseIntact(), "C01/recv/a-released-id-belongs-to-its-next-user")
	// C06: the response for call 1 was received completely (header and body) and its caller had given up
	// (before the header, or while the body was read): nobody else will release the id, recv must
	if !wasClosed && vHeadErr == nil && s == k1 && err == nil && vBodyResult == 0 && sent1 == 0 && vIsClosed(c1.timeout) && ctx.err == nil {
		vAssert(len(vClears) == 1 && vClears[0] == k1, "C06/recv/response-for-an-abandoned-call-releases-its-stream")
	}
	if !wasClosed && vHeadErr == nil && s > 0 && s <= n {
		// the addressed entry is removed, the other one stays
		if s == k1 {
			now, still := c.calls[k1]
			vAssert(!still || (vReusedBy != nil && now == vReusedBy), "C01/recv/delivered-call-is-unregistered-first")
			if _, had2 := c.calls[k2]; had2 {
				vAssert(c.calls[k2] == c2, "C01/recv/other-calls-untouched")
			}
		}
		if s != k1 && s != k2 {
			vAssert(sent1 == 0 && sent2 == 0 && len(vClears) == 0 && c.calls[k1] == c1, "C01/recv/unknown-stream-touches-no-call")
			vAssert(vDiscards == 1 || err != nil, "C01/recv/unknown-stream-frame-is-discarded")
		}
	}
	if wasClosed && vHeadErr == nil && s > 0 && s <= n {
		vAssert(err == ErrConnectionClosed && sent1+sent2 == 0 && len(vClears) == 0, "C06/recv/closed-connection-delivers-nothing")
	}
	vObserve("err", err != nil)
}

// ---- the closer ----

func vh_close_with_error() {
	c := vNewConn()
	n := c.streams.NumStreams
	k1, k2 := int(vI16("k1")), int(vI16("k2"))
	vAssume(k1 >= 1 && k1 < n && k2 >= 1 && k2 < n && k1 != k2)
	c1 := &callReq{streamID: k1, resp: make(chan callResp), timeout: make(chan struct{})}
	c2 := &callReq{streamID: k2, resp: make(chan callResp), timeout: make(chan struct{})}
	// a caller is either still waiting on resp (the environment receives) or has closed timeout
	w1, w2 := vBool("caller1_waiting"), vBool("caller2_waiting")
	if w1 {
		vEnvChan(c1.resp)
	} else {
		close(c1.timeout)
	}
	if w2 {
		vEnvChan(c2.resp)
	} else {
		close(c2.timeout)
	}
	c.calls[k1], c.calls[k2] = c1, c2
	already := vBool("already_closed")
	if already {
		c.closed = true
		c.calls = nil
	}
	var cause error
	if vBool("with_error") {
		cause = vErrIO
	}
	c.closeWithError(cause)
	vAssert(c.closed, "C06/close/marks-closed")
	vAssert(len(vClears) == 0, "C01/close/never-releases-streams")
	s1, s2 := vSentOn(c1.resp), vSentOn(c2.resp)
	if already {
		vAssert(s1+s2 == 0 && len(vHandled) == 0, "C06/close/second-close-does-nothing")
	} else if cause != nil {
		vAssert(s1 == boolInt(w1) && s2 == boolInt(w2), "C06/close/every-waiting-caller-gets-the-error-exactly-once")
		vAssert(c.calls == nil, "C06/close/calls-dropped")
		vAssert(len(vHandled) == 1, "C06/close/error-handler-called-once")
	} else {
		vAssert(s1+s2 == 0, "C06/close/plain-close-sends-nothing")
	}
	// whatever close delivers to a caller is the closing error: never something exec would take for the
	// server's response to that request (a callResp without error)
	for _, ch := range []chan callResp{c1.resp, c2.resp} {
		if vSentOn(ch) > 0 {
			r, _ := vLastSent(ch).(callResp)
			vAssert(r.err != nil && r.framer == nil, "C01/close/a-caller-is-never-handed-a-response-the-server-did-not-send")
		}
	}
	vAssert(c.conn.(*vNetConn).closed == boolInt(!already), "C06/close/socket-closed-once")
	vObserve("closed", c.closed)
}

func boolInt(b bool) int {
	if b {
		return 1
	}
	return 0
}

// ---- the receive loop over two successive frames ----
//
// A response handed to a caller is decoded by the caller later, concurrently with the receive loop
// reading the next frame. The frame given to the first caller (header: opcode, flags, stream, length)
// must therefore be unaffected by anything the receive loop does afterwards.
func vh_recv_twice() {
	c := vNewConn()
	c.session = &Session{logger: vNopLogger{}}
	n := c.streams.NumStreams
	k1, k2 := int(vI16("k1")), int(vI16("k2"))
	vAssume(k1 >= 1 && k1 < n && k2 >= 1 && k2 < n && k1 != k2)
	c1 := &callReq{streamID: k1, resp: make(chan callResp), timeout: make(chan struct{})}
	c2 := &callReq{streamID: k2, resp: make(chan callResp), timeout: make(chan struct{})}
	vEnvChan(c1.resp)
	vEnvChan(c2.resp)
	c.calls[k1], c.calls[k2] = c1, c2
	op1, op2 := frameOp(vU8("op1")), frameOp(vU8("op2"))
	fl1, fl2 := vU8("flags1"), vU8("flags2")
	ctx := &vCtx{done: make(chan struct{})}
	vBodyResult, vDiscards, vHeadErr = 0, 0, nil
	vHead = frameHeader{version: protoVersion(c.version | 0x80), stream: k1, op: op1, flags: fl1, length: 0}
	err1 := c.recv(ctx)
	vAssume(err1 == nil && vSentOn(c1.resp) == 1)
	r1 := vLastSent(c1.resp).(callResp)
	vAssert(r1.err == nil && r1.framer != nil && r1.framer.header != nil, "C01/recv/delivers-a-frame-with-its-header")
	if r1.framer == nil || r1.framer.header == nil {
		return
	}
	vAssert(r1.framer.header.stream == k1 && r1.framer.header.op == op1 && r1.framer.header.flags == fl1, "C01/recv/delivered-frame-carries-the-header-that-was-read")
	// the next frame arrives before the first caller has decoded its response
	vHead = frameHeader{version: protoVersion(c.version | 0x80), stream: k2, op: op2, flags: fl2, length: 0}
	err2 := c.recv(ctx)
	vAssume(err2 == nil)
	vAssert(r1.framer.header.stream == k1 && r1.framer.header.op == op1 && r1.framer.header.flags == fl1, "C01/recv/a-delivered-frame-is-not-changed-by-later-frames")
	if vSentOn(c2.resp) == 1 {
		r2 := vLastSent(c2.resp).(callResp)
		vAssert(r2.framer != nil && r2.framer != r1.framer && r2.framer.header != r1.framer.header, "C01/recv/each-response-has-its-own-frame-and-header")
	}
	vObserve("delivered", vSentOn(c1.resp)+vSentOn(c2.resp))
}

// ---- the body reader behind readFrame (Conn.Read): retries after a read deadline ----
//
// A frame body may arrive in pieces with read-deadline expiries in between. Conn.Read must account for
// every byte the socket delivered: it returns n = len(p) with no error exactly when all pieces arrived,
// asks the socket each time for exactly the part of p that is still missing, and never reports more or
// fewer bytes than were read - otherwise the receive loop loses frame alignment and a later response is
// parsed from the wrong offset and handed to whichever call owns the stream id found there.

type vTempErr struct{}

func (vTempErr) Error() string   { return "verif: i/o timeout" }
func (vTempErr) Timeout() bool   { return true }
func (vTempErr) Temporary() bool { return true }

var (
	vRFCalls  int
	vRFGot    int  // bytes delivered so far
	vRFAligned bool // every call was handed exactly the missing tail of p
	vRFBuf    []byte
	vRFFatal  bool
)

func vstubReadFull(r io.Reader, buf []byte) (int, error) {
	vRFCalls++
	if len(buf) != len(vRFBuf)-vRFGot || (len(buf) > 0 && &buf[0] != &vRFBuf[vRFGot]) {
		vRFAligned = false
	}
	k := vInt("piece")
	vAssume(k >= 0 && k <= len(buf))
	vRFGot += k
	if k == len(buf) {
		return k, nil
	}
	if vBool("fatal_error") {
		vRFFatal = true
		return k, vErrIO
	}
	return k, vTempErr{}
}

func vh_conn_read() {
	c := vNewConn()
	if vBool("timeout_configured") {
		c.timeout = time.Second
	}
	L := vBound("L")
	p := make([]byte, L)
	vRFCalls, vRFGot, vRFAligned, vRFBuf, vRFFatal = 0, 0, true, p, false
	n, err := c.Read(p)
	vAssert(vRFAligned, "C01/read/each-attempt-asks-for-exactly-the-missing-bytes")
	vAssert(n == vRFGot, "C01/read/reports-exactly-the-bytes-that-were-read")
	vAssert((err == nil) == (n == L), "C01/read/success-iff-the-whole-body-was-read")
	vAssert(vRFCalls <= 5, "C01/read/bounded-retries")
	if vRFFatal {
		vAssert(err != nil, "C01/read/fatal-error-is-reported")
	}
	vObserve("n", n)
}
