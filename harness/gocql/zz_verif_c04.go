package gocql

import "net"

// ---- C04: well-formed responses are decoded to exactly what the server said ----
//
// vEnc is a reference ENCODER written from the protocol specification: the harness builds a
// logical response from symbolic values, encodes it with vEnc, parses it with the real framer
// and compares the driver's view with the logical response field by field.

type vEnc struct{ b []byte }

func (e *vEnc) u8(v byte)    { e.b = append(e.b, v) }
func (e *vEnc) u16(v uint16) { e.b = append(e.b, byte(v>>8), byte(v)) }
func (e *vEnc) i32(v int32)  { e.b = append(e.b, byte(v>>24), byte(v>>16), byte(v>>8), byte(v)) }
func (e *vEnc) str(s string) { e.u16(uint16(len(s))); e.b = append(e.b, s...) }
func (e *vEnc) bytes(p []byte, null bool) {
	if null {
		e.i32(-1)
		return
	}
	e.i32(int32(len(p)))
	e.b = append(e.b, p...)
}
func (e *vEnc) shortBytes(p []byte) { e.u16(uint16(len(p))); e.b = append(e.b, p...) }
func (e *vEnc) strList(l []string) {
	e.u16(uint16(len(l)))
	for _, s := range l {
		e.str(s)
	}
}

func vParse(ver byte, op frameOp, flags byte, body []byte) (frame, error, *framer) {
	head := &frameHeader{version: protoVersion(ver | 0x80), flags: flags, stream: 7, op: op, length: len(body)}
	hs := 9
	if ver < 3 {
		hs = 8
	}
	f := &framer{proto: ver, headSize: hs, header: head, buf: body}
	fr, err := f.parseFrame()
	return fr, err, f
}

func vSym(name string) string { return vStringN(name, vBound("S")) }

// ---- simple responses + header flag prefixes ----

func vh_resp_simple() {
	ver := byte(vBound("version"))
	e := &vEnc{}
	var flags byte
	var trace []byte
	var warn []string
	var pk string
	var pv []byte
	if vBool("tracing") {
		flags |= flagTracing
		trace = vBytesN("trace", 16)
		e.b = append(e.b, trace...)
	}
	if ver >= 4 && vBool("warnings") {
		flags |= flagWarning
		warn = []string{vSym("w")}
		e.strList(warn)
	}
	if ver >= 4 && vBool("payload") {
		flags |= flagCustomPayload
		pk, pv = vSym("pk"), vBytesN("pv", 1)
		e.u16(1)
		e.str(pk)
		e.bytes(pv, false)
	}
	kind := vChoose("kind", 6)
	var class string
	var tok []byte
	tokNull := false
	var k1, v1, v2 string
	var op frameOp
	switch kind {
	case 0:
		op = opReady
	case 1:
		op = opAuthenticate
		class = vSym("class")
		e.str(class)
	case 2, 3:
		op = opAuthChallenge
		if kind == 3 {
			op = opAuthSuccess
		}
		tokNull = vBool("null_token")
		if !tokNull {
			tok = vBytesN("tok", vBound("S"))
		}
		e.bytes(tok, tokNull)
	case 4:
		op = opSupported
		k1, v1, v2 = vSym("k"), vSym("v1"), vSym("v2")
		e.u16(1)
		e.str(k1)
		e.strList([]string{v1, v2})
	default:
		op = opResult
		e.i32(1) // void
	}
	fr, err, f := vParse(ver, op, flags, e.b)
	vAssert(err == nil && fr != nil, "C04/simple/parsed")
	if err != nil || fr == nil {
		return
	}
	vAssert(len(f.buf) == 0, "C04/simple/body-consumed-exactly")
	vAssert(refBytesEq(f.traceID, trace) && (trace != nil) == (f.traceID != nil), "C04/header/trace-id")
	h := fr.Header()
	vAssert(len(h.warnings) == len(warn) && (len(warn) == 0 || h.warnings[0] == warn[0]), "C04/header/warnings")
	if flags&flagCustomPayload != 0 {
		got, ok := f.customPayload[pk]
		vAssert(len(f.customPayload) == 1 && ok && refBytesEq(got, pv), "C04/header/custom-payload")
	} else {
		vAssert(len(f.customPayload) == 0, "C04/header/custom-payload")
	}
	switch kind {
	case 0:
		_, ok := fr.(*readyFrame)
		vAssert(ok, "C04/ready")
	case 1:
		a, ok := fr.(*authenticateFrame)
		vAssert(ok && a.class == class, "C04/authenticate/class")
	case 2:
		a, ok := fr.(*authChallengeFrame)
		vAssert(ok && refBytesEq(a.data, tok) && (a.data == nil) == tokNull, "C04/auth-challenge/token")
	case 3:
		a, ok := fr.(*authSuccessFrame)
		vAssert(ok && refBytesEq(a.data, tok) && (a.data == nil) == tokNull, "C04/auth-success/token")
	case 4:
		s, ok := fr.(*supportedFrame)
		vAssert(ok && len(s.supported) == 1 && len(s.supported[k1]) == 2 && s.supported[k1][0] == v1 && s.supported[k1][1] == v2, "C04/supported/multimap")
	default:
		_, ok := fr.(*resultVoidFrame)
		vAssert(ok, "C04/result/void")
	}
	vObserve("kind", kind)
}

// ---- ERROR with every code-specific layout ----

func vh_resp_error() {
	ver := byte(vBound("version"))
	code := vErrCodes[vBound("code")]
	msg := vSym("msg")
	e := &vEnc{}
	e.i32(code)
	e.str(msg)
	cl, a, b := vU16("cl"), vI32("a"), vI32("b")
	s1, s2 := vSym("s1"), vSym("s2")
	by := vU8("byte")
	nf := vI32("numfailures")
	ip := vBytesN("ip", 4)
	fcode := vU16("fcode")
	id := vBytesN("id", vBound("S"))
	switch code {
	case 0x1000:
		e.u16(cl)
		e.i32(a)
		e.i32(b)
	case 0x1100:
		e.u16(cl)
		e.i32(a)
		e.i32(b)
		e.str(s1)
	case 0x1200:
		e.u16(cl)
		e.i32(a)
		e.i32(b)
		e.u8(by)
	case 0x1300, 0x1500:
		e.u16(cl)
		e.i32(a)
		e.i32(b)
		if ver >= 5 {
			e.i32(1)
			e.u8(4)
			e.b = append(e.b, ip...)
			e.u16(fcode)
		} else {
			e.i32(nf)
		}
		if code == 0x1300 {
			e.u8(by)
		} else {
			e.str(s1)
		}
	case 0x1400:
		e.str(s1)
		e.str(s2)
		e.strList([]string{s1})
	case 0x1700:
		e.u16(cl)
		e.i32(a)
		e.i32(b)
	case 0x2400:
		e.str(s1)
		e.str(s2)
	case 0x2500:
		e.shortBytes(id)
	}
	fr, err, f := vParse(ver, opError, 0, e.b)
	if code == 0x7777 {
		vAssert(err != nil, "C04/error/unknown-code-is-an-error")
		return
	}
	vAssert(err == nil && fr != nil, "C04/error/parsed")
	if err != nil || fr == nil {
		return
	}
	vAssert(len(f.buf) == 0, "C04/error/body-consumed-exactly")
	re, isErr := fr.(RequestError)
	vAssert(isErr && re.Code() == int(code) && re.Message() == msg, "C04/error/code-and-message")
	wantNF := int(nf)
	if ver >= 5 {
		wantNF = 1
	}
	switch code {
	case 0x1000:
		x, ok := fr.(*RequestErrUnavailable)
		vAssert(ok && uint16(x.Consistency) == cl && x.Required == int(a) && x.Alive == int(b), "C04/error/unavailable")
	case 0x1100:
		x, ok := fr.(*RequestErrWriteTimeout)
		vAssert(ok && uint16(x.Consistency) == cl && x.Received == int(a) && x.BlockFor == int(b) && x.WriteType == s1, "C04/error/write-timeout")
	case 0x1200:
		x, ok := fr.(*RequestErrReadTimeout)
		vAssert(ok && uint16(x.Consistency) == cl && x.Received == int(a) && x.BlockFor == int(b) && x.DataPresent == by, "C04/error/read-timeout")
	case 0x1300:
		x, ok := fr.(*RequestErrReadFailure)
		vAssert(ok && uint16(x.Consistency) == cl && x.Received == int(a) && x.BlockFor == int(b) && x.NumFailures == wantNF && x.DataPresent == (by != 0), "C04/error/read-failure")
		if ok && ver >= 5 {
			got, has := x.ErrorMap[net.IP(ip).String()]
			vAssert(len(x.ErrorMap) == 1 && has && got == fcode, "C04/error/read-failure-reason-map")
		}
	case 0x1500:
		x, ok := fr.(*RequestErrWriteFailure)
		vAssert(ok && uint16(x.Consistency) == cl && x.Received == int(a) && x.BlockFor == int(b) && x.NumFailures == wantNF && x.WriteType == s1, "C04/error/write-failure")
	case 0x1400:
		x, ok := fr.(*RequestErrFunctionFailure)
		vAssert(ok && x.Keyspace == s1 && x.Function == s2 && len(x.ArgTypes) == 1 && x.ArgTypes[0] == s1, "C04/error/function-failure")
	case 0x1600:
		_, ok := fr.(*RequestErrCDCWriteFailure)
		vAssert(ok, "C04/error/cdc-write-failure")
	case 0x1700:
		x, ok := fr.(*RequestErrCASWriteUnknown)
		vAssert(ok && uint16(x.Consistency) == cl && x.Received == int(a) && x.BlockFor == int(b), "C04/error/cas-write-unknown")
	case 0x2400:
		x, ok := fr.(*RequestErrAlreadyExists)
		vAssert(ok && x.Keyspace == s1 && x.Table == s2, "C04/error/already-exists")
	case 0x2500:
		x, ok := fr.(*RequestErrUnprepared)
		vAssert(ok && refBytesEq(x.StatementId, id), "C04/error/unprepared-id")
	default:
		_, ok := fr.(errorFrame)
		vAssert(ok, "C04/error/plain")
	}
	vObserve("code", int(code))
}

// ---- type trees ----

type vType struct {
	id     uint16
	custom string
	elems  []vType
	names  []string
	ks, nm string
}

func vGenType(depth int) vType {
	n := 4
	if depth > 0 {
		n = 9
	}
	switch vChoose("type", n) {
	case 0:
		return vType{id: uint16(TypeInt)}
	case 1:
		return vType{id: uint16(TypeVarchar)}
	case 2:
		return vType{id: vU16("native_id") & 0x1f} // any native id 0..31
	case 3:
		return vType{id: 0, custom: "org.apache.cassandra.db.marshal." + []string{"Int32Type", "UUIDType", "x.Y"}[vChoose("custom", 3)]}
	case 4:
		return vType{id: uint16(TypeList), elems: []vType{vGenType(depth - 1)}}
	case 5:
		return vType{id: uint16(TypeSet), elems: []vType{vGenType(depth - 1)}}
	case 6:
		return vType{id: uint16(TypeMap), elems: []vType{vGenType(depth - 1), vGenType(depth - 1)}}
	case 7:
		return vType{id: uint16(TypeTuple), elems: []vType{vGenType(depth - 1), vGenType(depth - 1)}}
	}
	return vType{id: uint16(TypeUDT), ks: vSym("uks"), nm: vSym("unm"), names: []string{vSym("f0")}, elems: []vType{vGenType(depth - 1)}}
}

func (e *vEnc) typ(t vType) {
	e.u16(t.id)
	switch Type(t.id) {
	case TypeCustom:
		e.str(t.custom)
	case TypeList, TypeSet:
		e.typ(t.elems[0])
	case TypeMap:
		e.typ(t.elems[0])
		e.typ(t.elems[1])
	case TypeTuple:
		e.u16(uint16(len(t.elems)))
		for _, x := range t.elems {
			e.typ(x)
		}
	case TypeUDT:
		e.str(t.ks)
		e.str(t.nm)
		e.u16(uint16(len(t.elems)))
		for i, x := range t.elems {
			e.str(t.names[i])
			e.typ(x)
		}
	}
}

// vSameType: the driver's TypeInfo tree equals the logical tree
func vSameType(ti TypeInfo, t vType) bool {
	want := Type(t.id)
	if want == TypeCustom {
		switch t.custom {
		case "org.apache.cassandra.db.marshal.Int32Type":
			want = TypeInt
		case "org.apache.cassandra.db.marshal.UUIDType":
			want = TypeUUID
		}
	}
	if ti == nil || ti.Type() != want {
		return false
	}
	switch want {
	case TypeCustom:
		return ti.Custom() == t.custom
	case TypeList, TypeSet:
		c, ok := ti.(CollectionType)
		return ok && vSameType(c.Elem, t.elems[0])
	case TypeMap:
		c, ok := ti.(CollectionType)
		return ok && vSameType(c.Key, t.elems[0]) && vSameType(c.Elem, t.elems[1])
	case TypeTuple:
		tt, ok := ti.(TupleTypeInfo)
		if !ok || len(tt.Elems) != len(t.elems) {
			return false
		}
		for i := range t.elems {
			if !vSameType(tt.Elems[i], t.elems[i]) {
				return false
			}
		}
		return true
	case TypeUDT:
		u, ok := ti.(UDTTypeInfo)
		if !ok || u.KeySpace != t.ks || u.Name != t.nm || len(u.Elements) != len(t.elems) {
			return false
		}
		for i := range t.elems {
			if u.Elements[i].Name != t.names[i] || !vSameType(u.Elements[i].Type, t.elems[i]) {
				return false
			}
		}
		return true
	}
	_, isNative := ti.(NativeType)
	return isNative
}

type vCol struct {
	ks, tbl, name string
	t             vType
}

type vMeta struct {
	flags  int32
	paging []byte
	gks    string
	gtbl   string
	cols   []vCol
	ncols  int
}

func vGenMeta(depth int) vMeta {
	var m vMeta
	m.ncols = vBound("cols")
	if vBool("global_spec") {
		m.flags |= 1
		m.gks, m.gtbl = vSym("gks"), vSym("gtbl")
	}
	if vBool("more_pages") {
		m.flags |= 2
		m.paging = vBytesN("paging", vBound("S"))
	}
	if vBool("no_metadata") {
		m.flags |= 4
	}
	for i := 0; i < m.ncols; i++ {
		c := vCol{name: vSym("col"), t: vGenType(depth)}
		if m.flags&1 == 0 {
			c.ks, c.tbl = vSym("cks"), vSym("ctbl")
		} else {
			c.ks, c.tbl = m.gks, m.gtbl
		}
		m.cols = append(m.cols, c)
	}
	return m
}

func (e *vEnc) meta(m vMeta, prepared bool, ver byte, pk []uint16) {
	e.i32(m.flags)
	e.i32(int32(m.ncols))
	if prepared && ver >= 4 {
		e.i32(int32(len(pk)))
		for _, i := range pk {
			e.u16(i)
		}
	}
	if m.flags&2 != 0 {
		e.bytes(m.paging, false)
	}
	if m.flags&4 != 0 {
		return
	}
	if m.flags&1 != 0 {
		e.str(m.gks)
		e.str(m.gtbl)
	}
	for _, c := range m.cols {
		if m.flags&1 == 0 {
			e.str(c.ks)
			e.str(c.tbl)
		}
		e.str(c.name)
		e.typ(c.t)
	}
}

func vCheckMeta(got resultMetadata, m vMeta, label string) {
	vAssert(got.flags == int(m.flags) && got.colCount == m.ncols, label+"/flags-and-count")
	vAssert(refBytesEq(got.pagingState, m.paging) && (m.flags&2 != 0) == (got.pagingState != nil), label+"/paging-state")
	if m.flags&4 != 0 {
		vAssert(len(got.columns) == 0, label+"/no-metadata-has-no-columns")
		return
	}
	ok := len(got.columns) == m.ncols
	extra := 0
	for i := 0; ok && i < m.ncols; i++ {
		c, w := got.columns[i], m.cols[i]
		ok = c.Keyspace == w.ks && c.Table == w.tbl && c.Name == w.name && vSameType(c.TypeInfo, w.t)
		if Type(w.t.id) == TypeTuple {
			extra += len(w.t.elems) - 1
		}
	}
	vAssert(ok, label+"/columns-names-and-type-trees")
	vAssert(got.actualColCount == m.ncols+extra, label+"/scannable-column-count")
}

// ---- RESULT rows (metadata + row count) ----

func vh_resp_rows_meta() {
	ver := byte(vBound("version"))
	m := vGenMeta(vBound("depth"))
	rows := vI32("rows")
	vAssume(rows >= 0)
	e := &vEnc{}
	e.i32(2)
	e.meta(m, false, ver, nil)
	e.i32(rows)
	tail := vBytesN("cells", 2) // the row data stays in the framer for Scan
	e.b = append(e.b, tail...)
	fr, err, f := vParse(ver, opResult, 0, e.b)
	vAssert(err == nil && fr != nil, "C04/rows/parsed")
	if err != nil || fr == nil {
		return
	}
	r, ok := fr.(*resultRowsFrame)
	vAssert(ok, "C04/rows/frame-kind")
	if !ok {
		return
	}
	vCheckMeta(r.meta, m, "C04/rows/metadata")
	vAssert(r.numRows == int(rows), "C04/rows/row-count")
	vAssert(refBytesEq(f.buf, tail), "C04/rows/metadata-consumed-exactly")
	vObserve("rows", r.numRows)
}

// ---- RESULT prepared / set keyspace / schema change ----

func vh_resp_prepared() {
	ver := byte(vBound("version"))
	id := vBytesN("id", vBound("S"))
	req := vGenMeta(vBound("depth"))
	req.flags &^= 2 // bind metadata carries no paging state
	req.paging = nil
	var pk []uint16
	if ver >= 4 {
		for i := 0; i < vBound("pk"); i++ {
			// well-formed: a partition key index names one of the bind markers the frame describes
			x := vU16("pki")
			vAssume(int(x) < req.ncols)
			pk = append(pk, x)
		}
	}
	e := &vEnc{}
	e.i32(4)
	e.shortBytes(id)
	e.meta(req, true, ver, pk)
	var resp vMeta
	if ver >= 2 {
		resp = vMeta{ncols: 1, cols: []vCol{{ks: vSym("rks"), tbl: vSym("rtbl"), name: vSym("rcol"), t: vType{id: uint16(TypeInt)}}}}
		e.meta(resp, false, ver, nil)
	}
	fr, err, f := vParse(ver, opResult, 0, e.b)
	vAssert(err == nil && fr != nil, "C04/prepared/parsed")
	if err != nil || fr == nil {
		return
	}
	p, ok := fr.(*resultPreparedFrame)
	vAssert(ok, "C04/prepared/frame-kind")
	if !ok {
		return
	}
	vAssert(len(f.buf) == 0, "C04/prepared/body-consumed-exactly")
	vAssert(refBytesEq(p.preparedID, id), "C04/prepared/id")
	vCheckMeta(p.reqMeta.resultMetadata, req, "C04/prepared/bind-metadata")
	if req.flags&4 == 0 && req.flags&1 != 0 {
		vAssert(p.reqMeta.keyspace == req.gks && p.reqMeta.table == req.gtbl, "C04/prepared/global-table-spec")
	}
	okpk := len(p.reqMeta.pkeyColumns) == len(pk)
	for i := 0; okpk && i < len(pk); i++ {
		okpk = p.reqMeta.pkeyColumns[i] == int(pk[i])
	}
	vAssert(okpk, "C04/prepared/partition-key-indexes")
	if ver >= 2 {
		vCheckMeta(p.respMeta, resp, "C04/prepared/result-metadata")
	}
	vObserve("n", len(p.reqMeta.columns))
}

func vh_resp_schema_event() {
	ver := byte(vBound("version"))
	asEvent := vBool("as_event")
	e := &vEnc{}
	kind := vChoose("kind", 4)
	change := vSym("change")
	ks, obj := vSym("ks"), vSym("obj")
	arg := vSym("arg")
	ip := vBytesN("ip", 4)
	if vBool("ipv6") {
		ip = vBytesN("ip6", 16)
	}
	port := vI32("port")
	target := ""
	op := opResult
	if asEvent {
		op = opEvent
	}
	switch kind {
	case 0: // set keyspace (result only)
		vAssume(!asEvent)
		e.i32(3)
		e.str(ks)
	case 1, 2: // topology / status change (event only)
		vAssume(asEvent)
		if kind == 1 {
			e.str("TOPOLOGY_CHANGE")
		} else {
			e.str("STATUS_CHANGE")
		}
		e.str(change)
		e.u8(byte(len(ip)))
		e.b = append(e.b, ip...)
		e.i32(port)
	default: // schema change
		if asEvent {
			e.str("SCHEMA_CHANGE")
		} else {
			e.i32(5)
		}
		e.str(change)
		if ver <= 2 {
			e.str(ks)
			e.str(obj) // empty = keyspace-level change
		} else {
			target = []string{"KEYSPACE", "TABLE", "TYPE", "FUNCTION", "AGGREGATE"}[vChoose("target", 5)]
			e.str(target)
			e.str(ks)
			if target != "KEYSPACE" {
				e.str(obj)
			}
			if target == "FUNCTION" || target == "AGGREGATE" {
				e.strList([]string{arg})
			}
		}
	}
	fr, err, f := vParse(ver, op, 0, e.b)
	vAssert(err == nil && fr != nil, "C04/schema-event/parsed")
	if err != nil || fr == nil {
		return
	}
	vAssert(len(f.buf) == 0, "C04/schema-event/body-consumed-exactly")
	switch kind {
	case 0:
		x, ok := fr.(*resultKeyspaceFrame)
		vAssert(ok && x.keyspace == ks, "C04/result/set-keyspace")
	case 1:
		x, ok := fr.(*topologyChangeEventFrame)
		vAssert(ok && x.change == change && refBytesEq(x.host, ip) && x.port == int(port), "C04/event/topology-change")
	case 2:
		x, ok := fr.(*statusChangeEventFrame)
		vAssert(ok && x.change == change && refBytesEq(x.host, ip) && x.port == int(port), "C04/event/status-change")
	default:
		if ver <= 2 {
			if obj != "" {
				x, ok := fr.(*schemaChangeTable)
				vAssert(ok && x.change == change && x.keyspace == ks && x.object == obj, "C04/schema-change/v2-table")
			} else {
				x, ok := fr.(*schemaChangeKeyspace)
				vAssert(ok && x.change == change && x.keyspace == ks, "C04/schema-change/v2-keyspace")
			}
			return
		}
		switch target {
		case "KEYSPACE":
			x, ok := fr.(*schemaChangeKeyspace)
			vAssert(ok && x.change == change && x.keyspace == ks, "C04/schema-change/keyspace")
		case "TABLE":
			x, ok := fr.(*schemaChangeTable)
			vAssert(ok && x.change == change && x.keyspace == ks && x.object == obj, "C04/schema-change/table")
		case "TYPE":
			x, ok := fr.(*schemaChangeType)
			vAssert(ok && x.change == change && x.keyspace == ks && x.object == obj, "C04/schema-change/type")
		case "FUNCTION":
			x, ok := fr.(*schemaChangeFunction)
			vAssert(ok && x.change == change && x.keyspace == ks && x.name == obj && len(x.args) == 1 && x.args[0] == arg, "C04/schema-change/function")
		default:
			x, ok := fr.(*schemaChangeAggregate)
			vAssert(ok && x.change == change && x.keyspace == ks && x.name == obj && len(x.args) == 1 && x.args[0] == arg, "C04/schema-change/aggregate")
		}
	}
	vObserve("kind", kind)
}

// ---- every cell of every row as seen through Scan / Scanner / MapScan / SliceMap ----
//
// A rows body with the columns (b blob, t text, i int) and 1..3 rows of arbitrary content (blob and
// text of 0..2 bytes or null, any int or null) is iterated to its end; afterwards EVERY row the
// consumer was given must still hold what the frame encodes for that row (a consumer that hands out
// a view of a buffer it reuses for the next row would show the last row everywhere).
type vCellRow struct {
	b     []byte
	bNull bool
	t     []byte
	tNull bool
	i     int32
	iNull bool
}

func vCellsIter(rows []vCellRow) *Iter {
	e := &vEnc{}
	for _, r := range rows {
		e.bytes(r.b, r.bNull)
		e.bytes(r.t, r.tNull)
		e.bytes(refBE(int64(r.i), 4), r.iNull)
	}
	f := &framer{proto: 4, buf: e.b, header: &frameHeader{version: 0x84, op: opResult}}
	cols := []ColumnInfo{
		{Keyspace: "k", Table: "tb", Name: "b", TypeInfo: NativeType{proto: 4, typ: TypeBlob}},
		{Keyspace: "k", Table: "tb", Name: "t", TypeInfo: NativeType{proto: 4, typ: TypeVarchar}},
		{Keyspace: "k", Table: "tb", Name: "i", TypeInfo: NativeType{proto: 4, typ: TypeInt}},
	}
	return &Iter{framer: f, numRows: len(rows), meta: resultMetadata{columns: cols, colCount: 3, actualColCount: 3}}
}

func vCellEq(r vCellRow, b []byte, t string, i int) bool {
	wb, wt, wi := r.b, string(r.t), int(r.i)
	if r.bNull {
		wb = nil
	}
	if r.tNull {
		wt = ""
	}
	if r.iNull {
		wi = 0
	}
	return refBytesSame(b, wb) && t == wt && i == wi
}

func vh_rows_cells() {
	n := 1 + vChoose("rows", vBound("max_rows"))
	rows := make([]vCellRow, n)
	for k := range rows {
		rows[k] = vCellRow{b: vBytes("b", 2), bNull: vBool("b_null"), t: vBytes("t", 2), tNull: vBool("t_null"), i: vI32("i"), iNull: vBool("i_null")}
		for _, ch := range rows[k].t {
			vAssume(ch < 0x80)
		}
		_ = vConcrete(len(rows[k].b))
		_ = vConcrete(len(rows[k].t))
	}
	it := vCellsIter(rows)
	type got struct {
		b []byte
		t string
		i int
	}
	var out []got
	switch vBound("consumer") {
	case 0: // Scan into fresh destinations
		for k := 0; k <= n; k++ {
			var g got
			if !it.Scan(&g.b, &g.t, &g.i) {
				break
			}
			out = append(out, g)
		}
	case 1: // Scanner
		sc := it.Scanner()
		for k := 0; k <= n && sc.Next(); k++ {
			var g got
			if sc.Scan(&g.b, &g.t, &g.i) != nil {
				break
			}
			out = append(out, g)
		}
	case 2: // MapScan
		for k := 0; k <= n; k++ {
			m := map[string]interface{}{}
			if !it.MapScan(m) {
				break
			}
			b, _ := m["b"].([]byte)
			t, _ := m["t"].(string)
			i, _ := m["i"].(int)
			out = append(out, got{b, t, i})
		}
	default: // SliceMap
		ms, err := it.SliceMap()
		vAssert(err == nil, "C04/cells/no-error-for-a-well-formed-body")
		for _, m := range ms {
			b, _ := m["b"].([]byte)
			t, _ := m["t"].(string)
			i, _ := m["i"].(int)
			out = append(out, got{b, t, i})
		}
	}
	vAssert(len(out) == n, "C04/cells/every-row-is-delivered")
	ok := len(out) == n
	for k := 0; ok && k < n; k++ {
		ok = vCellEq(rows[k], out[k].b, out[k].t, out[k].i)
	}
	vAssert(ok, "C04/cells/every-row-holds-what-the-frame-encodes-after-the-iteration")
	vAssert(len(it.framer.buf) == 0, "C04/cells/body-consumed-exactly")
	vAssert(it.Close() == nil, "C04/cells/no-error-for-a-well-formed-body")
	vObserve("rows", len(out))
}

// A tuple column followed by a plain column: the tuple expands to one destination per element
// (Scan / Scanner) or one map entry per element (MapScan / SliceMap), the following column keeps
// its own cell.
func vh_rows_tuple_cells() {
	n := 1 + vChoose("rows", vBound("max_rows"))
	type row struct{ a, b, i int32 }
	rows := make([]row, n)
	e := &vEnc{}
	for k := range rows {
		rows[k] = row{vI32("a"), vI32("b"), vI32("i")}
		var tup []byte
		tup = append(tup, 0, 0, 0, 4)
		tup = append(tup, refBE(int64(rows[k].a), 4)...)
		tup = append(tup, 0, 0, 0, 4)
		tup = append(tup, refBE(int64(rows[k].b), 4)...)
		e.bytes(tup, false)
		e.bytes(refBE(int64(rows[k].i), 4), false)
	}
	nat := func(t Type) NativeType { return NativeType{proto: 4, typ: t} }
	cols := []ColumnInfo{
		{Keyspace: "k", Table: "tb", Name: "t", TypeInfo: TupleTypeInfo{NativeType: nat(TypeTuple), Elems: []TypeInfo{nat(TypeInt), nat(TypeInt)}}},
		{Keyspace: "k", Table: "tb", Name: "i", TypeInfo: nat(TypeInt)},
	}
	it := &Iter{framer: &framer{proto: 4, buf: e.b, header: &frameHeader{version: 0x84, op: opResult}}, numRows: n,
		meta: resultMetadata{columns: cols, colCount: 2, actualColCount: 3}}
	var out []row
	switch vBound("consumer") {
	case 0:
		for k := 0; k <= n; k++ {
			var a, b, i int
			if !it.Scan(&a, &b, &i) {
				break
			}
			out = append(out, row{int32(a), int32(b), int32(i)})
		}
	case 1:
		sc := it.Scanner()
		for k := 0; k <= n && sc.Next(); k++ {
			var a, b, i int
			if err := sc.Scan(&a, &b, &i); err != nil {
				vAssert(false, "C04/cells/no-error-for-a-well-formed-body")
				break
			}
			out = append(out, row{int32(a), int32(b), int32(i)})
		}
	case 2:
		for k := 0; k <= n; k++ {
			m := map[string]interface{}{}
			if !it.MapScan(m) {
				break
			}
			a, _ := m["t[0]"].(int)
			b, _ := m["t[1]"].(int)
			i, _ := m["i"].(int)
			out = append(out, row{int32(a), int32(b), int32(i)})
		}
	default:
		ms, err := it.SliceMap()
		vAssert(err == nil, "C04/cells/no-error-for-a-well-formed-body")
		for _, m := range ms {
			a, _ := m["t[0]"].(int)
			b, _ := m["t[1]"].(int)
			i, _ := m["i"].(int)
			out = append(out, row{int32(a), int32(b), int32(i)})
		}
	}
	vAssert(len(out) == n, "C04/cells/every-row-is-delivered")
	ok := len(out) == n
	for k := 0; ok && k < n; k++ {
		ok = out[k] == rows[k]
	}
	vAssert(ok, "C04/cells/tuple-elements-and-the-following-column-hold-what-the-frame-encodes")
	vObserve("rows", len(out))
}
