package gocql

import (
	"math"
	"math/big"
	"net"

	"gopkg.in/inf.v0"
)

// ---- C12 / C02: text, blob, boolean, float, double, uuid, inet, varint/bigint big.Int, decimal ----

func vh_text_blob() {
	L := vBound("L")
	typ := []Type{TypeVarchar, TypeAscii, TypeText, TypeBlob}[vChoose("cql", 4)]
	s := vString("s", L)
	data, err := Marshal(vNT(typ), s)
	vAssert(err == nil && refBytesEq(data, []byte(s)) && data != nil, "C12/text/string/bytes")
	var back string
	vAssert(Unmarshal(vNT(typ), data, &back) == nil && back == s, "C02/text/string/roundtrip")
	b := vBytes("b", L)
	d2, err2 := Marshal(vNT(typ), b)
	vAssert(err2 == nil && refBytesEq(d2, b) && d2 != nil, "C12/text/bytes/bytes")
	// into a nil []byte the bytes come back (an empty value has no bytes: nil-ness of a plain []byte target is
	// not a documented distinction); into a non-nil buffer - "non-nil buffer is reused" - an empty value stays
	// non-nil while null (below) makes it nil; the documented null/empty distinction is the **T target
	var bb []byte
	vAssert(Unmarshal(vNT(typ), d2, &bb) == nil && refBytesEq(bb, b), "C02/text/bytes/roundtrip")
	buf := []byte("xy")
	vAssert(Unmarshal(vNT(typ), d2, &buf) == nil && refBytesEq(buf, b) && buf != nil, "C02/text/bytes/roundtrip-empty-stays-non-null-in-a-reused-buffer")
	var pb *[]byte
	vAssert(Unmarshal(vNT(typ), d2, &pb) == nil && pb != nil && refBytesEq(*pb, b), "C02/text/bytes/value-into-pointer-pointer-is-non-nil")
	// null: nil pointer marshals to null; null into *[]byte gives nil, into *string the zero value
	var np *string
	d3, err3 := Marshal(vNT(typ), np)
	vAssert(err3 == nil && d3 == nil, "C02/text/nil-pointer-is-null")
	nb := []byte("x")
	vAssert(Unmarshal(vNT(typ), nil, &nb) == nil && nb == nil, "C02/text/null-into-bytes-is-nil")
	ns := "x"
	vAssert(Unmarshal(vNT(typ), nil, &ns) == nil && ns == "", "C02/text/null-into-string-is-zero")
	var pp *string
	vAssert(Unmarshal(vNT(typ), nil, &pp) == nil && pp == nil, "C02/text/null-into-pointer-pointer-is-nil")
	vAssert(Unmarshal(vNT(typ), data, &pp) == nil && pp != nil && *pp == s, "C02/text/value-into-pointer-pointer")
	vObserve("len", len(data))
}

func vh_bool() {
	v := vBool("v")
	data, err := Marshal(vNT(TypeBoolean), v)
	want := []byte{0}
	if v {
		want = []byte{1}
	}
	vAssert(err == nil && refBytesEq(data, want), "C12/boolean/bool/bytes")
	var back bool
	vAssert(Unmarshal(vNT(TypeBoolean), data, &back) == nil && back == v, "C02/boolean/bool/roundtrip")
	// any non-zero byte is true
	b := vU8("b")
	vAssert(Unmarshal(vNT(TypeBoolean), []byte{b}, &back) == nil && back == (b != 0), "C12/boolean/decode")
	vObserve("data", data)
}

func vh_float_double() {
	b32 := vU32("bits32")
	f := math.Float32frombits(b32)
	data, err := Marshal(vNT(TypeFloat), f)
	vAssert(err == nil && refBytesEq(data, refBE(int64(b32), 4)), "C12/float/float32/bytes")
	var back float32
	vAssert(Unmarshal(vNT(TypeFloat), data, &back) == nil && math.Float32bits(back) == b32, "C02/float/float32/roundtrip-bits")
	b64 := vU64("bits64")
	d := math.Float64frombits(b64)
	data2, err2 := Marshal(vNT(TypeDouble), d)
	vAssert(err2 == nil && refBytesEq(data2, refBE(int64(b64), 8)), "C12/double/float64/bytes")
	var back2 float64
	vAssert(Unmarshal(vNT(TypeDouble), data2, &back2) == nil && math.Float64bits(back2) == b64, "C02/double/float64/roundtrip-bits")
	vObserve("data", data)
}

func vh_uuid_marshal() {
	u := vUUID("u")
	typ := []Type{TypeUUID, TypeTimeUUID}[vChoose("cql", 2)]
	data, err := Marshal(vNT(typ), u)
	vAssert(err == nil && refBytesEq(data, u[:]), "C12/uuid/UUID/bytes")
	var back UUID
	vAssert(Unmarshal(vNT(typ), data, &back) == nil && back == u, "C02/uuid/UUID/roundtrip")
	arr := [16]byte(u)
	d2, e2 := Marshal(vNT(typ), arr)
	vAssert(e2 == nil && refBytesEq(d2, u[:]), "C12/uuid/array/bytes")
	raw := vBytes("raw", 17)
	d3, e3 := Marshal(vNT(typ), raw)
	vAssert((e3 == nil) == (len(raw) == 16) && (e3 != nil || refBytesEq(d3, raw)), "C12/uuid/bytes/exactly-16")
	var bb []byte
	vAssert(Unmarshal(vNT(typ), data, &bb) == nil && refBytesEq(bb, u[:]), "C02/uuid/into-bytes")
	vObserve("data", data)
}

func vh_inet() {
	var ip net.IP
	v6 := vBool("sixteen_bytes")
	if v6 {
		ip = net.IP(vBytesN("ip6", 16))
	} else {
		ip = net.IP(vBytesN("ip4", 4))
	}
	data, err := Marshal(vNT(TypeInet), ip)
	// spec: 4 or 16 bytes; a v4-mapped 16-byte address is the same address as its 4-byte form
	mapped := v6
	for i := 0; i < 10 && mapped; i++ {
		mapped = ip[i] == 0
	}
	mapped = mapped && v6 && ip[10] == 0xff && ip[11] == 0xff
	var want []byte
	switch {
	case !v6:
		want = ip
	case mapped:
		want = ip[12:]
	default:
		want = ip
	}
	vAssert(err == nil && refBytesEq(data, want), "C12/inet/ip/bytes")
	var back net.IP
	vAssert(Unmarshal(vNT(TypeInet), data, &back) == nil && back.Equal(ip), "C02/inet/ip/roundtrip")
	vObserve("len", len(data))
}

// varint / bigint from big.Int. bound: |v| < 2^152
func vBig(name string) (*big.Int, int64, bool) {
	// built from sign and 8 magnitude bytes plus an optional high part, so that both the 64-bit and the wide range occur
	var mag []byte
	if vBound("bigwide") == 1 {
		// the 64-bit band: an 8-byte magnitude with arbitrary top and bottom bytes and all-zero / all-one middle
		// (2^56 .. 2^64-1 on both sides of zero: around the int64 / uint64 limits)
		mid := byte(0)
		if vBool(name + "_mid_ones") {
			mid = 0xff
		}
		mag = []byte{vU8(name + "_top"), mid, mid, mid, mid, mid, mid, vU8(name + "_low")}
	} else {
		mag = vBytes(name, vBound("bigbytes"))
		mag = mag[:vConcrete(len(mag))] // fork on the byte length: the magnitude is then a plain concatenation
	}
	neg := vBool(name + "_neg")
	b := new(big.Int).SetBytes(mag)
	if neg {
		b.Neg(b)
	}
	return b, b.Int64(), b.IsInt64()
}

func refMinimal2C(v *big.Int) []byte {
	// minimal two's complement: for 64-bit values the reference is refVarint
	return refVarint(v.Int64())
}

func vh_varint_bigint() {
	b, v64, fits := vBig("m")
	data, err := Marshal(vNT(TypeVarint), b)
	if fits {
		vAssert(err == nil && refBytesEq(data, refVarint(v64)), "C12/varint/big.Int/bytes-minimal-two's-complement")
	}
	if err == nil {
		back := new(big.Int)
		vAssert(Unmarshal(vNT(TypeVarint), data, back) == nil && back.Cmp(b) == 0, "C02/varint/big.Int/roundtrip")
		if fits {
			var b64 int64
			vAssert(Unmarshal(vNT(TypeVarint), data, &b64) == nil && b64 == v64, "C02/varint/big.Int/into-int64")
		}
	}
	vObserve("len", len(data))
}

func vh_bigint_bigint() {
	b, v64, fits := vBig("m")
	vAssume(fits)
	data, err := Marshal(vNT(TypeBigInt), *b)
	vWitness("big.Int-into-bigint", true)
	vAssert(err != nil || refBytesEq(data, refBE(v64, 8)), "C12/bigint/big.Int/eight-bytes")
	vObserve("len", len(data))
}

func vh_decimal() {
	b, v64, fits := vBig("m")
	scale := vI32("scale")
	d := inf.NewDecBig(b, inf.Scale(scale))
	data, err := Marshal(vNT(TypeDecimal), *d)
	if fits {
		vAssert(err == nil && refBytesEq(data, refCat(refBE(int64(scale), 4), refVarint(v64))), "C12/decimal/inf.Dec/scale-then-varint")
	}
	if err == nil {
		var back inf.Dec
		vAssert(Unmarshal(vNT(TypeDecimal), data, &back) == nil && back.UnscaledBig().Cmp(b) == 0 && int32(back.Scale()) == scale, "C02/decimal/inf.Dec/roundtrip")
	}
	vObserve("len", len(data))
}
