package gocql

import (
	"context"
	"errors"
	"io"
	"net"
	"time"
)

// ---- C07: frames are written whole ----

var vErrDeadline = errors.New("verif: SetWriteDeadline failed")
var vErrShort = errors.New("verif: short write")

type vConnStub struct {
	deadlineErr   error
	deadlineCalls int
	writeCalls    int
	lastWrite     []byte
	writeN        int
	writeErr      error
}

func (c *vConnStub) SetWriteDeadline(t time.Time) error { c.deadlineCalls++; return c.deadlineErr }
func (c *vConnStub) Write(p []byte) (int, error) {
	c.writeCalls++
	c.lastWrite = p
	return c.writeN, c.writeErr
}

// ghost state of the net.Buffers.WriteTo stub
var (
	vWTcalls int
	vWTseen  [][]byte
	vWTn     int64
	vWTerr   error
)

// vstubBuffersWriteTo replaces (*net.Buffers).WriteTo: it returns what the harness scripted
// (any 0 <= n <= total, err == nil iff n == total) and, like the real one, consumes the receiver.
func vstubBuffersWriteTo(v *net.Buffers, w io.Writer) (int64, error) {
	vWTcalls++
	vWTseen = append([][]byte(nil), (*v)...)
	for i := range *v {
		(*v)[i] = nil
	}
	*v = nil
	return vWTn, vWTerr
}

func vstubNow() time.Time { return time.Time{} }

func vSameSlice(a, b []byte) bool {
	if len(a) != len(b) {
		return false
	}
	if len(a) == 0 {
		return true
	}
	return &a[0] == &b[0]
}

// flush: attribution of a (possibly short) coalesced write to the queued requests
func vh_flush() {
	k := vBound("k")
	conn := &vConnStub{}
	if vBool("deadline_fails") {
		conn.deadlineErr = vErrDeadline
	}
	w := &writeCoalescer{c: conn, timeout: time.Duration(vI64("timeout"))}
	bufs := make(net.Buffers, k)
	chans := make([]chan writeResult, k)
	rc := make([]chan<- writeResult, k)
	lens := make([]int64, k)
	var total int64
	for i := 0; i < k; i++ {
		L := vInt("L")
		vAssume(L >= 1 && L < 1<<31)
		bufs[i] = vSliceOfLen(L)
		lens[i] = int64(L)
		total += int64(L)
		chans[i] = make(chan writeResult, 1)
		rc[i] = chans[i]
	}
	vWTn = vI64("n")
	vAssume(vWTn >= 0 && vWTn <= total)
	vWTerr = nil
	if vWTn != total {
		vWTerr = vErrShort
	}
	vWTcalls, vWTseen = 0, nil

	w.flush(rc, bufs)

	deadlineFailed := w.timeout > 0 && conn.deadlineErr != nil
	if deadlineFailed {
		vAssert(vWTcalls == 0, "C07/flush/no-write-after-deadline-error")
	} else {
		vAssert(vWTcalls == 1, "C07/flush/one-write")
		okOrder := len(vWTseen) == k
		for i := 0; i < k && okOrder; i++ {
			okOrder = vSameSlice(vWTseen[i], bufs[i])
		}
		vAssert(okOrder, "C07/flush/buffers-in-arrival-order-each-once")
	}
	var before int64
	for i := 0; i < k; i++ {
		vAssert(len(chans[i]) == 1, "C07/flush/exactly-one-result-per-request")
		if len(chans[i]) != 1 {
			return
		}
		r := <-chans[i]
		if deadlineFailed {
			vAssert(r.n == 0 && r.err != nil, "C07/flush/deadline-error-reported")
			continue
		}
		full := before+lens[i] <= vWTn
		if full {
			vAssert(int64(r.n) == lens[i] && r.err == nil, "C07/flush/success-only-if-whole-frame-written")
		} else {
			part := vWTn - before
			if part < 0 {
				part = 0
			}
			vAssert(int64(r.n) == part && r.err != nil, "C07/flush/partial-attribution")
		}
		before += lens[i]
	}
	vObserve("calls", vWTcalls)
}

// ---- direct writer ----

type vCtx struct {
	done    chan struct{}
	err     error
	lateErr bool // the first Err() still answers nil (the context ends right after the early check)
	asked   int
}

func (c *vCtx) Deadline() (time.Time, bool)       { return time.Time{}, false }
func (c *vCtx) Done() <-chan struct{}             { return c.done }
func (c *vCtx) Err() error {
	c.asked++
	if c.lateErr && c.asked == 1 {
		return nil
	}
	return c.err
}
func (c *vCtx) Value(key interface{}) interface{} { return nil }

var _ context.Context = (*vCtx)(nil)

func vh_direct_writer() {
	conn := &vConnStub{}
	if vBool("deadline_fails") {
		conn.deadlineErr = vErrDeadline
	}
	L := vInt("L")
	vAssume(L >= 1 && L < 1<<31)
	p := vSliceOfLen(L)
	conn.writeN = vInt("n")
	vAssume(conn.writeN >= 0 && conn.writeN <= L)
	if conn.writeN < L {
		conn.writeErr = vErrShort
	}
	ctx := &vCtx{done: make(chan struct{})}
	ctxDone := vBool("ctx_done")
	if ctxDone {
		close(ctx.done)
		ctx.err = context.Canceled
	}
	quit := make(chan struct{})
	closed := vBool("conn_closed")
	if closed {
		close(quit)
	}
	sem := make(chan struct{}, 1)
	held := vBool("another_writer_holds_the_semaphore")
	if held {
		sem <- struct{}{}
	}
	// with the semaphore held, a live context and an open connection the writer must WAIT (the engine ends
	// that path as blocked, which this entry allows); it must never write meanwhile - frames of concurrent
	// direct writers are kept whole by this semaphore alone, with or without a write timeout
	c := &deadlineContextWriter{w: conn, timeout: time.Duration(vI64("timeout")), semaphore: sem, quit: quit}
	n, err := c.writeContext(ctx, p)
	if conn.writeCalls > 0 {
		vAssert(!held, "C07/direct/write-only-inside-critical-section")
		vAssert(conn.writeCalls == 1 && vSameSlice(conn.lastWrite, p), "C07/direct/whole-frame-in-one-write")
		vAssert(n == conn.writeN && (err == nil) == (n == L), "C07/direct/success-only-if-whole-frame-written")
		vAssert(!(n == 0 && (errors.Is(err, context.Canceled) || errors.Is(err, context.DeadlineExceeded))) || conn.writeN == 0, "C01/writer/not-started-is-reported-only-if-no-byte-was-written")
		vAssert(!(n == 0 && (errors.Is(err, context.Canceled) || errors.Is(err, context.DeadlineExceeded))) || conn.writeN == 0, "C06/writer/not-started-is-reported-only-if-no-byte-was-written")
	} else {
		vAssert(n == 0 && err != nil, "C07/direct/not-started-leaves-no-bytes")
	}
	wantHeld := 0
	if held {
		wantHeld = 1
	}
	vAssert(len(sem) == wantHeld, "C07/direct/semaphore-released")
	// C06: a writer that keeps the semaphore blocks every later request of the connection forever
	vAssert(len(sem) == wantHeld, "C06/writer/semaphore-released-on-every-exit")
	vObserve("n", n)
}

// ---- coalescing writer: the caller side (writeCoalescer.writeContext) ----
//
// Thread-modular: the flusher goroutine is the environment. Rely (decided by vh_flush / vh_flusher):
// the flusher owns every request it received from writeCh, writes its bytes (or fails to) and answers
// exactly once on the request's result channel with (n, err), err == nil iff n == len(p).
// Guarantee asserted here: once the request has been handed over the caller returns exactly the
// flusher's verdict - in particular it never reports "nothing written" (n == 0 with the context's
// error, which Conn.exec takes as licence to reuse the stream id) for bytes the flusher still owns;
// if the request was not handed over, no bytes can reach the wire and (0, err != nil) is returned.

var (
	vCoW      *writeCoalescer
	vCoCtx    *vCtx
	vCoResult writeResult
	vCoLen    int
)

// runs where the real code calls testEnqueuedHook: right after the hand-over. The flusher answers
// (now or later: the result channel has capacity 1, so "later" is the same state with the caller
// already waiting) and the caller's context may end meanwhile.
func vCoEnqueued() {
	req := vLastSent(vCoW.writeCh).(writeRequest)
	vCoResult = writeResult{n: vInt("flushed_n")}
	vAssume(vCoResult.n >= 0 && vCoResult.n <= vCoLen)
	if vCoResult.n < vCoLen {
		vCoResult.err = vErrShort
	}
	req.resultChan <- vCoResult
	if vBool("ctx_ends_after_enqueue") && vCoCtx.err == nil {
		close(vCoCtx.done)
		vCoCtx.err = context.Canceled
	}
}

func vh_coalesced_writer() {
	conn := &vConnStub{}
	L := vInt("L")
	vAssume(L >= 1 && L < 1<<31)
	vCoLen = L
	p := vSliceOfLen(L)
	ctx := &vCtx{done: make(chan struct{})}
	if vBool("ctx_done") {
		close(ctx.done)
		ctx.err = context.Canceled
	}
	quit := make(chan struct{})
	if vBool("conn_closed") {
		close(quit)
	}
	w := &writeCoalescer{c: conn, writeCh: make(chan writeRequest), quit: quit, timeout: time.Duration(vI64("timeout"))}
	vEnvChan(w.writeCh) // the flusher is always willing to receive
	vCoW, vCoCtx, vCoResult = w, ctx, writeResult{}
	w.testEnqueuedHook = vCoEnqueued
	n, err := w.writeContext(ctx, p)
	sent := vSentOn(w.writeCh)
	vAssert(sent <= 1, "C07/coalesced/frame-handed-over-at-most-once")
	if sent == 0 {
		vAssert(n == 0 && err != nil, "C07/coalesced/not-handed-over-leaves-no-bytes")
	} else {
		req := vLastSent(w.writeCh).(writeRequest)
		vAssert(vSameSlice(req.data, p), "C07/coalesced/whole-frame-handed-over")
		vAssert(n == vCoResult.n && err == vCoResult.err, "C07/coalesced/caller-gets-the-flushers-verdict")
		vAssert((err == nil) == (n == L), "C07/coalesced/success-only-if-whole-frame-written")
		// C01/C06: exec reads (n == 0, context error) as "the frame never started": it unregisters the call and
		// frees the stream id. Bytes the flusher owns may still reach the server, so that answer is forbidden here.
		vAssert(!(n == 0 && (errors.Is(err, context.Canceled) || errors.Is(err, context.DeadlineExceeded))), "C01/writer/not-started-is-reported-only-if-the-frame-was-never-handed-over")
		vAssert(!(n == 0 && (errors.Is(err, context.Canceled) || errors.Is(err, context.DeadlineExceeded))), "C06/writer/not-started-is-reported-only-if-the-frame-was-never-handed-over")
	}
	vAssert(conn.writeCalls == 0, "C07/coalesced/caller-never-writes-itself")
}

// ---- coalescing writer: the flusher loop (writeCoalescer.writeFlusherImpl) ----
//
// The loop is run for a bounded number of iterations: the environment offers, per iteration, a new
// request, a timer tick or quit (select forks over the ready cases); after `steps` iterations quit is
// the only case left. Asserted: every request received gets exactly one result; requests are flushed
// in arrival order, each in exactly one WriteTo batch; a tick with nothing queued writes nothing new;
// on quit every queued request is answered (0, err != nil) and nothing is written.

func vh_flusher() {
	steps := vBound("steps")
	conn := &vConnStub{}
	quit := make(chan struct{})
	w := &writeCoalescer{c: conn, writeCh: make(chan writeRequest, steps), quit: quit}
	timerC := make(chan time.Time, steps)
	resets := 0
	var chans []chan writeResult
	var bufs [][]byte
	// script: the order of the environment's offers
	nreq, nticks := 0, 0
	for i := 0; i < steps; i++ {
		if vBool("offer_is_request") {
			rc := make(chan writeResult, 1)
			b := vSliceOfLen(1 + i)
			chans = append(chans, rc)
			bufs = append(bufs, b)
			w.writeCh <- writeRequest{resultChan: rc, data: b}
			nreq++
		} else {
			timerC <- time.Time{}
			nticks++
		}
	}
	close(quit)
	// every WriteTo succeeds completely (partial writes are vh_flush's subject)
	vWTcalls, vWTseen, vWTerr = 0, nil, nil
	vFlSeen = nil
	w.writeFlusherImpl(timerC, func() { resets++ })
	// the loop ended on quit; which requests it had received is whatever left writeCh
	received := nreq - len(w.writeCh)
	answered, ok := 0, true
	for i := 0; i < nreq; i++ {
		if i < received {
			vAssert(len(chans[i]) == 1, "C07/flusher/every-received-request-gets-exactly-one-result")
			if len(chans[i]) == 1 {
				r := <-chans[i]
				answered++
				if r.err == nil {
					ok = ok && r.n == len(bufs[i])
				} else {
					ok = ok && r.n == 0
				}
			}
		} else {
			vAssert(len(chans[i]) == 0, "C07/flusher/no-result-for-a-request-never-received")
		}
	}
	vAssert(ok, "C07/flusher/result-is-whole-frame-or-nothing-when-writes-succeed")
	// buffers reach WriteTo in arrival order, each once
	k := 0
	inOrder := true
	for _, b := range vFlSeen {
		if k < len(bufs) && vSameSlice(b, bufs[k]) {
			k++
		} else {
			inOrder = false
		}
	}
	vAssert(inOrder && k <= received, "C07/flusher/frames-flushed-once-in-arrival-order")
	vObserve("received", received)
}

var vFlSeen [][]byte

// WriteTo stub for the flusher harness: complete success, remembers every buffer it was given.
func vstubBuffersWriteToAll(v *net.Buffers, w io.Writer) (int64, error) {
	var n int64
	for _, b := range *v {
		vFlSeen = append(vFlSeen, b)
		n += int64(len(b))
	}
	*v = nil
	return n, nil
}

// ---- the flusher with a long backlog and a write that is cut short ----
//
// `backlog` one-byte frames are queued, then the coalescing timer fires, then the connection quits
// (the environment's steps are deferred goroutines: each runs when the flusher waits). The single
// vectored write may be cut short at any byte. Asserted: nothing is handed to the socket after a
// write that failed or was short, every request gets exactly one verdict, and a request is told
// "written" only if its byte was written.
var (
	vBkCalls  int
	vBkCut    int64 // bytes the socket accepts in total before failing (-1: never fails)
	vBkTaken  int64
	vBkAfter  bool // a write was attempted after one had failed
	vBkFailed bool
)

func vstubBuffersWriteToCut(v *net.Buffers, w io.Writer) (int64, error) {
	vBkCalls++
	if vBkFailed {
		vBkAfter = true
	}
	var total int64
	for _, b := range *v {
		total += int64(len(b))
	}
	*v = nil
	if vBkCut < 0 || vBkTaken+total <= vBkCut {
		vBkTaken += total
		return total, nil
	}
	n := vBkCut - vBkTaken
	vBkTaken = vBkCut
	vBkFailed = true
	return n, vErrIO
}

func vEnvTick(ch chan time.Time)  { ch <- time.Time{} }
func vEnvQuit(ch chan struct{})   { close(ch) }

func vh_flusher_backlog() {
	N := vBound("backlog")
	conn := &vConnStub{}
	quit := make(chan struct{})
	w := &writeCoalescer{c: conn, writeCh: make(chan writeRequest, N), quit: quit}
	timerC := make(chan time.Time, 1)
	chans := make([]chan writeResult, N)
	for i := 0; i < N; i++ {
		chans[i] = make(chan writeResult, 1)
		w.writeCh <- writeRequest{resultChan: chans[i], data: vSliceOfLen(1)}
	}
	vBkCalls, vBkTaken, vBkAfter, vBkFailed = 0, 0, false, false
	vBkCut = -1
	if vBool("write_is_cut_short") {
		vBkCut = int64(vChoose("cut_at", N))
	}
	go vEnvTick(timerC)
	go vEnvQuit(quit)
	w.writeFlusherImpl(timerC, func() {})
	vAssert(!vBkAfter, "C07/flusher/nothing-is-written-after-a-failed-write")
	okAll, written := true, 0
	for i := 0; i < N; i++ {
		if len(chans[i]) != 1 {
			okAll = false
			continue
		}
		r := <-chans[i]
		if r.err == nil {
			okAll = okAll && r.n == 1
			written++
		} else {
			okAll = okAll && r.n == 0
		}
	}
	vAssert(okAll, "C07/flusher/every-received-request-gets-exactly-one-result")
	vAssert(int64(written) <= vBkTaken, "C07/flusher/told-written-only-if-the-frame-is-in-the-stream")
	if vBkCut < 0 {
		vAssert(written == N, "C07/flusher/result-is-whole-frame-or-nothing-when-writes-succeed")
	}
	vObserve("written", written)
}
