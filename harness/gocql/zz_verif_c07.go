package gocql

import (
	"context"
	"errors"
	"io"
	"net"
	"time"
)

// ---- C07: frames are written whole ----

var vErrDeadline = errors.New("verif: SetWriteDeadline failed")
var vErrShort = errors.New("verif: short write")

type vConnStub struct {
	deadlineErr   error
	deadlineCalls int
	writeCalls    int
	lastWrite     []byte
	writeN        int
	writeErr      error
}

func (c *vConnStub) SetWriteDeadline(t time.Time) error { c.deadlineCalls++; return c.deadlineErr }
func (c *vConnStub) Write(p []byte) (int, error) {
	c.writeCalls++
	c.lastWrite = p
	return c.writeN, c.writeErr
}

// ghost state of the net.Buffers.WriteTo stub
var (
	vWTcalls int
	vWTseen  [][]byte
	vWTn     int64
	vWTerr   error
)

// vstubBuffersWriteTo replaces (*net.Buffers).WriteTo: it returns what the harness scripted
// (any 0 <= n <= total, err == nil iff n == total) and, like the real one, consumes the receiver.
func vstubBuffersWriteTo(v *net.Buffers, w io.Writer) (int64, error) {
	vWTcalls++
	vWTseen = append([][]byte(nil), (*v)...)
	for i := range *v {
		(*v)[i] = nil
	}
	*v = nil
	return vWTn, vWTerr
}

func vstubNow() time.Time { return time.Time{} }

func vSameSlice(a, b []byte) bool {
	if len(a) != len(b) {
		return false
	}
	if len(a) == 0 {
		return true
	}
	return &a[0] == &b[0]
}

// flush: attribution of a (possibly short) coalesced write to the queued requests
func vh_flush() {
	k := vBound("k")
	conn := &vConnStub{}
	if vBool("deadline_fails") {
		conn.deadlineErr = vErrDeadline
	}
	w := &writeCoalescer{c: conn, timeout: time.Duration(vI64("timeout"))}
	bufs := make(net.Buffers, k)
	chans := make([]chan writeResult, k)
	rc := make([]chan<- writeResult, k)
	lens := make([]int64, k)
	var total int64
	for i := 0; i < k; i++ {
		L := vInt("L")
		vAssume(L >= 1 && L < 1<<31)
		bufs[i] = vSliceOfLen(L)
		lens[i] = int64(L)
		total += int64(L)
		chans[i] = make(chan writeResult, 1)
		rc[i] = chans[i]
	}
	vWTn = vI64("n")
	vAssume(vWTn >= 0 && vWTn <= total)
	vWTerr = nil
	if vWTn != total {
		vWTerr = vErrShort
	}
	vWTcalls, vWTseen = 0, nil

	w.flush(rc, bufs)

	deadlineFailed := w.timeout > 0 && conn.deadlineErr != nil
	if deadlineFailed {
		vAssert(vWTcalls == 0, "C07/flush/no-write-after-deadline-error")
	} else {
		vAssert(vWTcalls == 1, "C07/flush/one-write")
		okOrder := len(vWTseen) == k
		for i := 0; i < k && okOrder; i++ {
			okOrder = vSameSlice(vWTseen[i], bufs[i])
		}
		vAssert(okOrder, "C07/flush/buffers-in-arrival-order-each-once")
	}
	var before int64
	for i := 0; i < k; i++ {
		vAssert(len(chans[i]) == 1, "C07/flush/exactly-one-result-per-request")
		if len(chans[i]) != 1 {
			return
		}
		r := <-chans[i]
		if deadlineFailed {
			vAssert(r.n == 0 && r.err != nil, "C07/flush/deadline-error-reported")
			continue
		}
		full := before+lens[i] <= vWTn
		if full {
			vAssert(int64(r.n) == lens[i] && r.err == nil, "C07/flush/success-only-if-whole-frame-written")
		} else {
			part := vWTn - before
			if part < 0 {
				part = 0
			}
			vAssert(int64(r.n) == part && r.err != nil, "C07/flush/partial-attribution")
		}
		before += lens[i]
	}
	vObserve("calls", vWTcalls)
}

// ---- direct writer ----

type vCtx struct {
	done    chan struct{}
	err     error
	lateErr bool // the first Err() still answers nil (the context ends right after the early check)
	asked   int
}

func (c *vCtx) Deadline() (time.Time, bool)       { return time.Time{}, false }
func (c *vCtx) Done() <-chan struct{}             { return c.done }
func (c *vCtx) Err() error {
	c.asked++
	if c.lateErr && c.asked == 1 {
		return nil
	}
	return c.err
}
func (c *vCtx) Value(key interface{}) interface{} { return nil }

var _ context.Context = (*vCtx)(nil)

func vh_direct_writer() {
	conn := &vConnStub{}
	if vBool("deadline_fails") {
		conn.deadlineErr = vErrDeadline
	}
	L := vInt("L")
	vAssume(L >= 1 && L < 1<<31)
	p := vSliceOfLen(L)
	conn.writeN = vInt("n")
	vAssume(conn.writeN >= 0 && conn.writeN <= L)
	if conn.writeN < L {
		conn.writeErr = vErrShort
	}
	ctx := &vCtx{done: make(chan struct{})}
	ctxDone := vBool("ctx_done")
	if ctxDone {
		close(ctx.done)
		ctx.err = context.Canceled
	}
	quit := make(chan struct{})
	closed := vBool("conn_closed")
	if closed {
		close(quit)
	}
	sem := make(chan struct{}, 1)
	held := vBool("another_writer_holds_the_semaphore")
	if held {
		sem <- struct{}{}
	}
	vAssume(ctxDone || closed || !held) // otherwise the writer legitimately waits
	c := &deadlineContextWriter{w: conn, timeout: time.Duration(vI64("timeout")), semaphore: sem, quit: quit}
	n, err := c.writeContext(ctx, p)
	if conn.writeCalls > 0 {
		vAssert(!held, "C07/direct/write-only-inside-critical-section")
		vAssert(conn.writeCalls == 1 && vSameSlice(conn.lastWrite, p), "C07/direct/whole-frame-in-one-write")
		vAssert(n == conn.writeN && (err == nil) == (n == L), "C07/direct/success-only-if-whole-frame-written")
	} else {
		vAssert(n == 0 && err != nil, "C07/direct/not-started-leaves-no-bytes")
	}
	wantHeld := 0
	if held {
		wantHeld = 1
	}
	vAssert(len(sem) == wantHeld, "C07/direct/semaphore-released")
	vObserve("n", n)
}
