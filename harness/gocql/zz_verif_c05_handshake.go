package gocql

import "context"

// ---- C05: well-formed frames of a kind not expected at that point of the handshake ----
//
// startupCoordinator.startup / authenticateHandshake run against a scripted server that answers each
// request with an arbitrary KIND of (well-formed) frame, for every authenticator configuration. The
// connection attempt must end with an error or a session, never with a panic (it runs in the pool's
// filler goroutine, a panic takes the application down).

func vAnyFrame() (frame, error) {
	switch vChoose("frame_kind", 9) {
	case 0:
		return nil, vErrIO
	case 1:
		return errorFrame{code: 0x0100, message: "bad credentials"}, nil
	case 2:
		return &authSuccessFrame{data: []byte("s")}, nil
	case 3:
		return &readyFrame{}, nil
	case 4:
		return &authChallengeFrame{data: []byte("c")}, nil
	case 5:
		return &authenticateFrame{class: "org.apache.cassandra.auth.PasswordAuthenticator"}, nil
	case 6:
		return &supportedFrame{}, nil
	case 7:
		return &resultVoidFrame{}, nil
	}
	return &authSuccessFrame{}, nil
}

func vh_handshake_frames() {
	conn := &Conn{cfg: &ConnConfig{CQLVersion: "3.0.0"}}
	switch vChoose("authenticator", 3) {
	case 1:
		conn.auth = PasswordAuthenticator{Username: "u", Password: "p"}
	case 2:
		conn.auth = &vCustomAuth{}
	}
	s := &startupCoordinator{conn: conn}
	vScript, vScriptErr, vWrites = nil, nil, nil
	for i := 0; i < vBound("steps"); i++ {
		f, e := vAnyFrame()
		vScript = append(vScript, f)
		vScriptErr = append(vScriptErr, e)
	}
	err := s.startup(context.Background(), map[string][]string{})
	vAssert(len(vWrites) >= 1, "C05/handshake/startup-is-sent")
	vObserve("err", err != nil)
}
