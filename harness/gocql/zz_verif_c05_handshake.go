package gocql

import (
	"context"
	"time"
)

// ---- C05: well-formed frames of a kind not expected at that point of the handshake ----
//
// startupCoordinator.startup / authenticateHandshake run against a scripted server that answers each
// request with an arbitrary KIND of (well-formed) frame, for every authenticator configuration. The
// connection attempt must end with an error or a session, never with a panic (it runs in the pool's
// filler goroutine, a panic takes the application down).

func vAnyFrame() (frame, error) {
	switch vChoose("frame_kind", 9) {
	case 0:
		return nil, vErrIO
	case 1:
		return errorFrame{code: 0x0100, message: "bad credentials"}, nil
	case 2:
		return &authSuccessFrame{data: []byte("s")}, nil
	case 3:
		return &readyFrame{}, nil
	case 4:
		return &authChallengeFrame{data: []byte("c")}, nil
	case 5:
		return &authenticateFrame{class: "org.apache.cassandra.auth.PasswordAuthenticator"}, nil
	case 6:
		return &supportedFrame{}, nil
	case 7:
		return &resultVoidFrame{}, nil
	}
	return &authSuccessFrame{}, nil
}

func vh_handshake_frames() {
	conn := &Conn{cfg: &ConnConfig{CQLVersion: "3.0.0"}}
	switch vChoose("authenticator", 3) {
	case 1:
		conn.auth = PasswordAuthenticator{Username: "u", Password: "p"}
	case 2:
		conn.auth = &vCustomAuth{}
	}
	s := &startupCoordinator{conn: conn}
	vScript, vScriptErr, vWrites = nil, nil, nil
	for i := 0; i < vBound("steps"); i++ {
		f, e := vAnyFrame()
		vScript = append(vScript, f)
		vScriptErr = append(vScriptErr, e)
	}
	err := s.startup(context.Background(), map[string][]string{})
	vAssert(len(vWrites) >= 1, "C05/handshake/startup-is-sent")
	vObserve("err", err != nil)
}

// ---- heartbeats: any well-formed frame in reply to OPTIONS ----
//
// Conn.heartBeat and controlConn.heartBeat send OPTIONS periodically from their own goroutines. The reply
// is scripted to be any kind of frame; the loops must carry on, reconnect or close - never panic.

var (
	vHBCtx   *vCtx
	vHBCalls int
	vHBSteps int
	vHBReconnects int
)

func vHBFrameBody() (frameOp, []byte) {
	switch vChoose("reply_kind", 6) {
	case 0:
		return opSupported, []byte{0, 0} // SUPPORTED with an empty multimap
	case 1:
		return opReady, nil
	case 2:
		return opError, refCat(vWInt(0x1001), vWStr("overloaded"))
	case 3:
		return opResult, vWInt(1) // RESULT void
	case 4:
		return opAuthenticate, vWStr("a.B")
	}
	return opAuthSuccess, vWInt(-1)
}

// the heartbeat timer fires again after Reset as long as scripted replies remain
func vstubTimerResetHB(t *time.Timer, d time.Duration) bool {
	if vHBCalls < vHBSteps && len(vTimerC) == 0 {
		vTimerC <- time.Time{}
	}
	return true
}

func vstubHeartbeatExec(c *Conn, ctx context.Context, req frameBuilder, tracer Tracer) (*framer, error) {
	vHBCalls++
	if vHBCalls >= vHBSteps && vHBCtx != nil && vHBCtx.err == nil {
		close(vHBCtx.done) // the connection's context ends after the scripted replies
		vHBCtx.err = context.Canceled
	}
	if vBool("exec_fails") {
		if vBool("because_no_stream_is_free") {
			return nil, ErrNoStreams
		}
		return nil, vErrIO
	}
	op, body := vHBFrameBody()
	return vFramerWith(c, op, body), nil
}

// C01 / C06: whatever its OPTIONS request ends with, the heartbeat leaves the other requests of the
// connection alone: a request whose caller gave up keeps its registration and its stream id until its
// response arrives or the connection goes (the id must not reach another request before that).
func vh_heartbeat_streams() {
	c := vNewConn()
	n := c.streams.NumStreams
	k1, k2 := int(vI16("k1")), int(vI16("k2"))
	vAssume(k1 >= 1 && k1 < n && k2 >= 1 && k2 < n && k1 != k2)
	c1 := &callReq{streamID: k1, resp: make(chan callResp), timeout: make(chan struct{})}
	c2 := &callReq{streamID: k2, resp: make(chan callResp), timeout: make(chan struct{})}
	close(c1.timeout) // its caller timed out or was cancelled; the response is still outstanding
	vEnvChan(c2.resp)
	c.calls[k1], c.calls[k2] = c1, c2
	vHBCtx = &vCtx{done: make(chan struct{})}
	vHBCalls, vHBSteps = 0, vBound("steps")
	c.heartBeat(vHBCtx)
	if !c.closed {
		vAssert(c.calls[k1] == c1 && c.calls[k2] == c2, "C01/heartbeat/outstanding-requests-stay-registered")
		vAssert(len(vClears) == 0, "C01/heartbeat/releases-no-stream-of-another-request")
	}
	vObserve("calls", vHBCalls)
}

func vh_heartbeat_frames() {
	c := vNewConn()
	vHBCtx = &vCtx{done: make(chan struct{})}
	vHBCalls, vHBSteps = 0, vBound("steps")
	c.heartBeat(vHBCtx)
	vAssert(vHBCalls <= vHBSteps+6, "C05/heartbeat/loop-ends-with-the-connection")
	vObserve("calls", vHBCalls)
}

func vstubControlWriteFrame(c *controlConn, w frameBuilder) (frame, error) {
	vHBCalls++
	if vHBCalls >= vHBSteps {
		select {
		case <-c.quit:
		default:
			close(c.quit)
		}
	}
	if vBool("write_fails") {
		return nil, vErrIO
	}
	op, body := vHBFrameBody()
	f := vFramerWith(&Conn{version: 4}, op, body)
	return f.parseFrame()
}
func vstubControlReconnect(c *controlConn) { vHBReconnects++ }

func vh_control_heartbeat_frames() {
	cc := &controlConn{session: &Session{logger: vNopLogger{}}, quit: make(chan struct{})}
	vHBCalls, vHBSteps, vHBReconnects = 0, vBound("steps"), 0
	cc.heartBeat()
	vAssert(vHBCalls <= vHBSteps, "C05/control-heartbeat/loop-ends-on-quit")
	vObserve("calls", vHBCalls)
}

// ---- pushed EVENT frames: from the receive loop's hand-over to the debouncers ----
//
// Conn.recv hands every frame on stream -1 to Session.handleEvent in a goroutine of its own. The body is
// a well-formed EVENT beginning followed by an arbitrary tail (or arbitrary from the first byte): the
// handler must not panic, must queue topology / status changes for the node handler and schema changes
// for the schema handler, and nothing else.
func vh_handle_event() {
	var body []byte
	if vBound("prefix") >= 0 {
		pre, ok := vFramePrefix(opEvent, vBound("prefix"))
		vAssume(ok)
		body = append(append([]byte(nil), pre...), vBytes("tail", vBound("L"))...)
	} else {
		body = vBytes("tail", vBound("L"))
	}
	c := &Conn{version: byte(vBound("version"))}
	f := vFramerWith(c, opEvent, body)
	s := &Session{logger: vNopLogger{}}
	s.nodeEvents = newEventDebouncer("node", func([]frame) {}, vNopLogger{})
	s.schemaEvents = newEventDebouncer("schema", func([]frame) {}, vNopLogger{})
	s.handleEvent(f)
	vAssert(len(s.nodeEvents.events)+len(s.schemaEvents.events) <= 1, "C05/event/at-most-one-event-per-frame")
	for _, e := range s.nodeEvents.events {
		_, topo := e.(*topologyChangeEventFrame)
		_, stat := e.(*statusChangeEventFrame)
		vAssert(topo || stat, "C05/event/only-node-events-reach-the-node-handler")
	}
	for _, e := range s.schemaEvents.events {
		switch e.(type) {
		case *schemaChangeKeyspace, *schemaChangeTable, *schemaChangeType, *schemaChangeFunction, *schemaChangeAggregate:
		default:
			vAssert(false, "C05/event/only-schema-events-reach-the-schema-handler")
		}
	}
	if len(s.nodeEvents.events)+len(s.schemaEvents.events) == 1 {
		vReach("C05/event/queued")
	}
	vObserve("queued", len(s.nodeEvents.events)+len(s.schemaEvents.events))
}

// ---- C06 / C17: controlConn.close() hands the heartbeat goroutine an UNBUFFERED send on quit ----
//
// close() (Session.Close) sets the state to closing and then blocks in `c.quit <- struct{}{}` until
// the heartbeat goroutine receives it. close() may arrive while a heartbeat request is in flight
// (the stub of writeFrame is where the environment acts); whatever that request ends with, the
// heartbeat goroutine must not return without having taken the send.
var vCtlCloseArrived bool

func vstubControlWriteFrameClose(c *controlConn, w frameBuilder) (frame, error) {
	vHBCalls++
	vAssume(vHBCalls <= vHBSteps)
	if !vCtlCloseArrived && (vHBCalls == vHBSteps || vBool("close_arrives_during_this_heartbeat")) {
		vCtlCloseArrived = true
		c.state = controlConnClosing
		vChanPush(c.quit, struct{}{}) // close() now blocks in the send until it is received
	}
	if vBool("write_fails") {
		return nil, vErrIO
	}
	op, body := vHBFrameBody()
	f := vFramerWith(&Conn{version: 4}, op, body)
	return f.parseFrame()
}

func vh_control_close_rendezvous() {
	cc := &controlConn{session: &Session{logger: vNopLogger{}}, quit: make(chan struct{})}
	vHBCalls, vHBSteps, vHBReconnects, vCtlCloseArrived = 0, vBound("steps"), 0, false
	if vBool("close_arrives_before_the_first_tick") {
		vCtlCloseArrived = true
		// heartBeat's own CAS comes first in real life (close only acts on a started control connection)
	}
	cc.heartBeat()
	if vCtlCloseArrived && vHBCalls > 0 {
		vAssert(len(cc.quit) == 0, "C06/control/heartbeat-takes-closes-rendezvous-send")
	}
	vObserve("calls", vHBCalls)
}
