package gocql

// ---- C05: iterating a row set shorter than it claims ----
//
// RESULT/Rows only decodes the metadata eagerly; the cells are decoded by Scan / Scanner / MapScan /
// SliceMap from what is left of the body. The declared row count and the remaining bytes are both
// arbitrary here: the body may end anywhere (between rows, inside a length, inside a value).
// Asserted: no panic in the consumer (the caller's goroutine), and an allocation proportional to the
// bytes received (the engine's allocation obligation on every make sized by a symbolic count).

func vRowsIter() *Iter {
	body := vBytes("rest", vBound("L"))
	f := &framer{proto: 4, buf: body, header: &frameHeader{version: 0x84, op: opResult}}
	rows := int(vI32("declared_rows"))
	vAssume(rows >= 0) // parseResultRows rejects negative counts
	cols := []ColumnInfo{{Keyspace: "k", Table: "t", Name: "a", TypeInfo: NativeType{proto: 4, typ: TypeBlob}}}
	if vBound("cols") == 2 {
		cols = append(cols, ColumnInfo{Keyspace: "k", Table: "t", Name: "b", TypeInfo: NativeType{proto: 4, typ: TypeInt}})
	}
	return &Iter{framer: f, numRows: rows, meta: resultMetadata{columns: cols, colCount: len(cols), actualColCount: len(cols)}}
}

func vh_short_rows() {
	it := vRowsIter()
	n := 0
	switch vBound("consumer") {
	case 0: // Scan
		var a []byte
		var b int
		for i := 0; i < 3; i++ {
			var ok bool
			if len(it.meta.columns) == 2 {
				ok = it.Scan(&a, &b)
			} else {
				ok = it.Scan(&a)
			}
			if !ok {
				break
			}
			n++
		}
	case 1: // Scanner
		sc := it.Scanner()
		for i := 0; i < 3 && sc.Next(); i++ {
			n++
		}
		_ = sc.Err()
	case 2: // MapScan
		for i := 0; i < 3; i++ {
			if !it.MapScan(map[string]interface{}{}) {
				break
			}
			n++
		}
	default: // SliceMap (bounded by the rows the L bytes can hold)
		m, _ := it.SliceMap()
		n = len(m)
	}
	vAssert(n <= it.numRows, "C05/rows/never-more-rows-than-declared")
	vObserve("rows", n)
}
