package gocql

import (
	"context"

	"github.com/gocql/gocql/internal/lru"
	"crypto/md5"
	"math/big"
)

// ---- C09: partitioners, routing key, ring lookup ----

// RandomPartitioner: token = |signed 128-bit big-endian md5|. md5 itself is an uninterpreted
// function (assembly); the reference negation is done on two 64-bit halves.
// md5.Sum is replaced by a stub that returns an arbitrary digest (the same one to the driver and to the
// reference): the claim is "for every 128-bit digest the token is |signed digest|".
var vDigest [16]byte

func vstubMD5Sum(data []byte) [16]byte { return vDigest }

func vh_random_hash() {
	key := vBytes("key", 4)
	d := vBytesN("digest", 16)
	copy(vDigest[:], d)
	sum := md5.Sum(key)
	var hi, lo uint64
	for i := 0; i < 8; i++ {
		hi = hi<<8 | uint64(sum[i])
		lo = lo<<8 | uint64(sum[8+i])
	}
	if hi>>63 == 1 { // negative: two's complement negate
		hi, lo = ^hi, ^lo
		lo++
		if lo == 0 {
			hi++
		}
	}
	var ref [17]byte // 2^127 needs 128 bits unsigned
	for i := 0; i < 8; i++ {
		ref[1+i] = byte(hi >> (8 * uint(7-i)))
		ref[9+i] = byte(lo >> (8 * uint(7-i)))
	}
	want := new(big.Int).SetBytes(ref[:])
	tok := randomPartitioner{}.Hash(key).(*randomToken)
	vAssert((*big.Int)(tok).Cmp(want) == 0, "C09/random/abs-of-signed-md5")
	vAssert((*big.Int)(tok).Sign() >= 0, "C09/random/non-negative")
	vObserve("keylen", len(key))
}

// OrderedPartitioner: the token is the key; order is unsigned lexicographic byte order.
func vh_ordered() {
	n := vBound("L")
	a, b := vBytes("a", n), vBytes("b", n)
	ta := orderedPartitioner{}.Hash(a)
	tb := orderedPartitioner{}.Hash(b)
	vAssert(string(ta.(orderedToken)) == string(a), "C09/ordered/token-is-key")
	// reference comparison
	less, decided := false, false
	for i := 0; i < len(a) && i < len(b) && !decided; i++ {
		if a[i] != b[i] {
			less, decided = a[i] < b[i], true
		}
	}
	if !decided {
		less = len(a) < len(b)
	}
	vAssert(ta.Less(tb) == less, "C09/ordered/unsigned-lexicographic")
	vObserve("less", less)
}

// Murmur3 token strings: optional sign and digits parse to the schoolbook value, and parsed
// tokens order numerically.
func vRefParseDec(s string) (int64, bool) {
	if len(s) == 0 {
		return 0, false
	}
	neg := false
	i := 0
	if s[0] == '-' || s[0] == '+' {
		neg = s[0] == '-'
		i = 1
	}
	if i == len(s) {
		return 0, false
	}
	var v int64
	for ; i < len(s); i++ {
		c := s[i]
		if c < '0' || c > '9' {
			return 0, false
		}
		v = v*10 + int64(c-'0')
	}
	if neg {
		v = -v
	}
	return v, true
}

func vh_murmur_parse() {
	n := vBound("L")
	s1, s2 := vString("s1", n), vString("s2", n)
	v1, ok1 := vRefParseDec(s1)
	v2, ok2 := vRefParseDec(s2)
	vAssume(ok1 && ok2) // token strings reported by the cluster are decimal numbers
	t1 := murmur3Partitioner{}.ParseString(s1)
	t2 := murmur3Partitioner{}.ParseString(s2)
	vAssert(int64(t1.(murmur3Token)) == v1, "C09/murmur3/parse-value")
	vAssert(t1.Less(t2) == (v1 < v2), "C09/murmur3/parse-order")
	vObserve("v1", v1)
}

// routing key: single component = raw Marshal bytes; composite = len16 | bytes | 0 per component
func vh_routing_key() {
	k := vBound("k")
	L := vBound("L")
	info := &routingKeyInfo{}
	var values []interface{}
	var want []byte
	// values interleaved with a non-key value so indexes are not the identity
	values = append(values, "not-a-key")
	for i := 0; i < k; i++ {
		var enc []byte
		switch vChoose("kind", 3) {
		case 0:
			v := vI32("iv")
			info.types = append(info.types, NativeType{proto: 4, typ: TypeInt})
			values = append(values, v)
			enc = refBE(int64(v), 4)
		case 1:
			s := vString("sv", L)
			_ = vConcrete(len(s)) // fork on the length: offsets in the composite buffer stay concrete
			info.types = append(info.types, NativeType{proto: 4, typ: TypeVarchar})
			values = append(values, s)
			enc = []byte(s)
		default:
			b := vBytes("bv", L)
			_ = vConcrete(len(b))
			info.types = append(info.types, NativeType{proto: 4, typ: TypeBlob})
			values = append(values, b)
			enc = b
		}
		info.indexes = append(info.indexes, i+1)
		if k == 1 {
			want = enc
		} else {
			want = append(want, byte(len(enc)>>8), byte(len(enc)))
			want = append(want, enc...)
			want = append(want, 0)
		}
	}
	got, err := createRoutingKey(info, values)
	vAssert(err == nil && refBytesEq(got, want), "C09/routing-key/layout")
	vObserve("len", len(got))
}

// ring lookup: for sorted ring tokens t0 < ... < tk-1 and any token t the entry is the first
// with t <= ti, wrapping to entry 0.
func vh_ring_lookup() {
	k := vBound("k")
	ring := &tokenRing{partitioner: murmur3Partitioner{}}
	hosts := make([]*HostInfo, k)
	toks := make([]int64, k)
	for i := 0; i < k; i++ {
		hosts[i] = &HostInfo{hostId: string(rune('a' + i))}
		toks[i] = vI64("tok")
		if i > 0 {
			vAssume(toks[i-1] < toks[i])
		}
		ring.tokens = append(ring.tokens, hostToken{murmur3Token(toks[i]), hosts[i]})
	}
	t := vI64("t")
	h, end := ring.GetHostForToken(murmur3Token(t))
	want := 0
	for i := k - 1; i >= 0; i-- {
		if t <= toks[i] {
			want = i
		}
	}
	vAssert(h == hosts[want] && end == token(murmur3Token(toks[want])), "C09/ring/owner-of-range")
	vObserve("want", want)
}

// ---- which bound values make up the routing key, and in which order (Session.routingKeyInfo) ----
//
// Before protocol 4 the PREPARE answer carries no partition-key indexes: the driver maps the table's
// partition-key columns (from the schema metadata, in KEY order) to the statement's bind markers by name.
// From protocol 4 the server's indexes are used. Either way the composite routing key must list the
// components in partition-key order, whatever order the statement binds them in.

var (
	vRKConn *Conn
	vRKMeta *KeyspaceMetadata
)

func vstubSessionGetConn(s *Session) *Conn { return vRKConn }
func vstubKeyspaceMetadata(s *Session, ks string) (*KeyspaceMetadata, error) {
	if vRKMeta == nil {
		return nil, vErrIO
	}
	return vRKMeta, nil
}

func vh_routing_key_info() {
	s := &Session{stmtsLRU: &preparedLRU{lru: lru.New(4)}, logger: vNopLogger{}}
	s.routingKeyInfoCache.lru = lru.New(4)
	c := &Conn{session: s, host: &HostInfo{hostId: "00000000-0000-0000-0000-000000000001"}, version: byte(vBound("version")), currentKeyspace: "ks", ctx: context.Background(), logger: vNopLogger{}}
	vRKConn = c
	// table t: PRIMARY KEY ((k1, k2), c1); the statement binds k1, k2 and one other column in any order
	names := [][]string{{"k1", "k2", "v"}, {"k2", "k1", "v"}, {"v", "k2", "k1"}, {"k2", "v", "k1"}, {"k1", "v"}}[vChoose("bind_order", 5)]
	typOf := map[string]Type{"k1": TypeInt, "k2": TypeVarchar, "v": TypeBlob}
	cols := make([]ColumnInfo, len(names))
	for i, n := range names {
		cols[i] = ColumnInfo{Keyspace: "ks", Table: "t", Name: n, TypeInfo: NativeType{proto: c.version, typ: typOf[n]}}
	}
	fl := &inflightPrepare{done: make(chan struct{}), preparedStatment: &preparedStatment{id: []byte{1}}}
	fl.preparedStatment.request.columns = cols
	fl.preparedStatment.request.colCount = len(cols)
	fl.preparedStatment.request.actualColCount = len(cols)
	fl.preparedStatment.request.keyspace, fl.preparedStatment.request.table = "ks", "t"
	pos := func(n string) int {
		for i, x := range names {
			if x == n {
				return i
			}
		}
		return -1
	}
	complete := pos("k1") >= 0 && pos("k2") >= 0
	if c.version >= 4 && complete {
		// what the server reports: bind marker index of each partition key component, in key order
		fl.preparedStatment.request.pkeyColumns = []int{pos("k1"), pos("k2")}
	}
	close(fl.done)
	stmt := "UPDATE t SET v=? WHERE k1=? AND k2=?"
	s.stmtsLRU.add(s.stmtsLRU.keyFor(c.host.HostID(), c.currentKeyspace, stmt), fl)
	vRKMeta = &KeyspaceMetadata{Name: "ks", Tables: map[string]*TableMetadata{"t": {Keyspace: "ks", Name: "t",
		PartitionKey: []*ColumnMetadata{{Name: "k1"}, {Name: "k2"}}}}}
	info, err := s.routingKeyInfo(context.Background(), stmt)
	vAssert(err == nil, "C09/routing-info/no-error")
	if !complete {
		vAssert(info == nil, "C09/routing-info/no-routing-key-without-every-component")
		return
	}
	vAssert(info != nil && len(info.indexes) == 2 && len(info.types) == 2, "C09/routing-info/one-entry-per-key-component")
	if info == nil || len(info.indexes) != 2 || len(info.types) != 2 {
		return
	}
	vAssert(info.indexes[0] == pos("k1") && info.indexes[1] == pos("k2"), "C09/routing-info/components-in-partition-key-order")
	vAssert(info.types[0].Type() == TypeInt && info.types[1].Type() == TypeVarchar, "C09/routing-info/component-types-follow-the-key-order")
	// and the key built from bound values
	vals := make([]interface{}, len(names))
	k1, k2 := vI32("k1"), vStringN("k2", 1)
	for i, n := range names {
		switch n {
		case "k1":
			vals[i] = k1
		case "k2":
			vals[i] = k2
		default:
			vals[i] = []byte{9}
		}
	}
	key, kerr := createRoutingKey(info, vals)
	want := refCat([]byte{0, 4}, refBE(int64(k1), 4), []byte{0}, []byte{0, 1}, []byte(k2), []byte{0})
	vAssert(kerr == nil && refBytesEq(key, want), "C09/routing-info/composite-key-in-partition-key-order")
	vObserve("n", len(key))
}

// Query.GetRoutingKey as the token-aware policy calls it: for every attempt and after every
// (re)Bind the key is the one of the CURRENT bound values; an explicit RoutingKey wins; a
// Session.Bind query without values has none.
var vRKInfo *routingKeyInfo

func vstubRoutingKeyInfo(s *Session, ctx context.Context, stmt string) (*routingKeyInfo, error) {
	if vBool("rki_fails") {
		return nil, vErrIO
	}
	return vRKInfo, nil
}

func vh_get_routing_key() {
	s := &Session{}
	vRKInfo = &routingKeyInfo{indexes: []int{1}, types: []TypeInfo{NativeType{proto: 4, typ: TypeInt}}, keyspace: "ks", table: "tbl"}
	if vBool("no_info") {
		vRKInfo = nil
	}
	v1, v2 := vI32("v1"), vI32("v2")
	q := &Query{session: s, stmt: "SELECT x FROM tbl WHERE a = ? AND k = ?", routingInfo: &queryRoutingInfo{}}
	q.Bind("a", v1)
	k1, e1 := q.GetRoutingKey()
	k1b, e1b := q.GetRoutingKey()
	if e1 == nil && vRKInfo != nil {
		vAssert(refBytesSame(k1, refBE(int64(v1), 4)), "C09/query-routing-key/is-the-key-of-the-bound-values")
		vAssert(q.Keyspace() == "ks" && q.Table() == "tbl", "C09/query-routing-key/keyspace-and-table-from-the-statement")
	}
	if e1 == nil && vRKInfo == nil {
		vAssert(k1 == nil, "C09/query-routing-key/none-without-routing-info")
	}
	if e1 == nil && e1b == nil {
		vAssert(refBytesSame(k1b, k1), "C09/query-routing-key/same-for-every-attempt")
	}
	// the query is reused with other values
	q.Bind("a", v2)
	k2, e2 := q.GetRoutingKey()
	if e2 == nil && vRKInfo != nil {
		vAssert(refBytesSame(k2, refBE(int64(v2), 4)), "C09/query-routing-key/follows-a-rebind")
	}
	// an explicit key wins over the computed one
	rk := vBytes("rk", 2)
	if len(rk) > 0 {
		q.RoutingKey(rk)
		k3, e3 := q.GetRoutingKey()
		vAssert(e3 == nil && refBytesSame(k3, rk), "C09/query-routing-key/explicit-key-wins")
	}
	// Session.Bind style query: values come later
	qb := &Query{session: s, stmt: "x", routingInfo: &queryRoutingInfo{}, binding: func(*QueryInfo) ([]interface{}, error) { return nil, nil }}
	k4, e4 := qb.GetRoutingKey()
	vAssert(k4 == nil && e4 == nil, "C09/query-routing-key/none-before-binding-values-exist")
	vObserve("e1", e1 == nil)
}

// RandomPartitioner token strings (0 .. 2^127-1 in decimal) at the machine-word boundaries: each
// sample is concrete (big.Int.SetString cannot be run on symbolic text), parsed by the driver, printed
// back, and compared with every other sample.
var vRandomTokenSamples = []string{
	"0", "9", "4294967295", "4294967296", "9223372036854775807", "9223372036854775808", "9999999999999999999",
	"10000000000000000000", "18446744073709551615", "18446744073709551616", "99999999999999999999",
	"170141183460469231731687303715884105727",
}

func vh_random_parse() {
	p := randomPartitioner{}
	i := vChoose("sample", len(vRandomTokenSamples))
	j := vChoose("other", len(vRandomTokenSamples))
	a, b := p.ParseString(vRandomTokenSamples[i]), p.ParseString(vRandomTokenSamples[j])
	vAssert(a.String() == vRandomTokenSamples[i], "C09/random/parse-prints-back-the-same-decimal")
	// the samples are listed in increasing numeric order
	vAssert(a.Less(b) == (i < j), "C09/random/parse-order-is-numeric-order")
}
