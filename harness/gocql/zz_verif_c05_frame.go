package gocql

// ---- C05: no bytes from the network can crash the application (frame parsing) ----

// vh_parse_frame: any body of <= L bytes, any header flags, for one (version, opcode).
// A runtime panic that escapes parseFrame is reported by the engine as label "no-panic";
// an allocation sized by the wire beyond the proportional limit as "alloc/proportional".
func vh_parse_frame() {
	ver := byte(vBound("version"))
	op := frameOp(vBound("op"))
	body := vBytes("body", vBound("L"))
	head := &frameHeader{version: protoVersion(ver | 0x80), flags: vU8("flags"), stream: int(vI16("stream")), op: op, length: len(body)}
	headSize := 9
	if ver < 3 {
		headSize = 8
	}
	f := &framer{proto: ver, headSize: headSize, header: head, buf: body}
	fr, err := f.parseFrame()
	vAssert(err != nil || fr != nil, "C05/frame/error-or-frame")
	vObserve("err", err != nil)
}

func vWStr(s string) []byte { return append([]byte{byte(len(s) >> 8), byte(len(s))}, s...) }
func vWInt(n int32) []byte  { return []byte{byte(n >> 24), byte(n >> 16), byte(n >> 8), byte(n)} }

var vErrCodes = []int32{0x0000, 0x000A, 0x0100, 0x1000, 0x1001, 0x1002, 0x1003, 0x1100, 0x1200, 0x1300, 0x1400, 0x1500, 0x1600, 0x1700,
	0x2000, 0x2100, 0x2200, 0x2300, 0x2400, 0x2500, 0x7777}

var vDeepErrCodes = []int32{0x1100, 0x1200, 0x1300, 0x1500}

// vFramePrefix: well-formed beginnings of response bodies, so that the arbitrary tail reaches the
// deeper readers (every truncation / corruption after the prefix is covered by the symbolic tail).
func vFramePrefix(op frameOp, id int) ([]byte, bool) {
	switch op {
	case opError:
		if id < len(vErrCodes) {
			return refCat(vWInt(vErrCodes[id]), vWStr("")), true
		}
		// deep beginnings: the fixed-size fields of the timeout / failure errors are present (consistency,
		// received, block-for), so the tail reaches the write type, the v5 reason map and the data-present byte
		if id-len(vErrCodes) < len(vDeepErrCodes) {
			return refCat(vWInt(vDeepErrCodes[id-len(vErrCodes)]), vWStr(""), []byte{0, 1}, vWInt(1), vWInt(2)), true
		}
	case opResult:
		switch {
		case id >= 0 && id < 5:
			return vWInt(int32(id + 1)), true // kind only
		case id >= 5 && id < 13: // rows: flags 0..7, one column
			return refCat(vWInt(2), vWInt(int32(id-5)), vWInt(1)), true
		case id >= 13 && id < 17: // prepared: id, then metadata flags 0,1,4,5 and one column
			fl := []int32{0, 1, 4, 5}[id-13]
			return refCat(vWInt(4), []byte{0, 1, 0x41}, vWInt(fl), vWInt(1)), true
		case id >= 17 && id < 22: // schema change targets (v3+ layout)
			tgt := []string{"KEYSPACE", "TABLE", "TYPE", "FUNCTION", "AGGREGATE"}[id-17]
			return refCat(vWInt(5), vWStr("CREATED"), vWStr(tgt)), true
		case id == 22: // rows, global spec, 1 column of a collection type, names empty
			return refCat(vWInt(2), vWInt(1), vWInt(1), vWStr(""), vWStr(""), vWStr("")), true
		case id == 23: // rows, no metadata, colcount 1: then the row count and cells
			return refCat(vWInt(2), vWInt(4), vWInt(1)), true
		}
	case opEvent:
		switch id {
		case 0:
			return refCat(vWStr("TOPOLOGY_CHANGE"), vWStr("NEW_NODE")), true
		case 1:
			return refCat(vWStr("STATUS_CHANGE"), vWStr("UP")), true
		case 2:
			return refCat(vWStr("SCHEMA_CHANGE"), vWStr("CREATED")), true
		case 3, 4, 5, 6, 7:
			tgt := []string{"KEYSPACE", "TABLE", "TYPE", "FUNCTION", "AGGREGATE"}[id-3]
			return refCat(vWStr("SCHEMA_CHANGE"), vWStr("UPDATED"), vWStr(tgt)), true
		case 8:
			return vWStr("TOPOLOGY_CHANGE"), true
		}
	}
	return nil, false
}

func vh_parse_frame_prefixed() {
	ver := byte(vBound("version"))
	op := frameOp(vBound("op"))
	pre, ok := vFramePrefix(op, vBound("prefix"))
	vAssume(ok)
	tail := vBytes("tail", vBound("L"))
	body := append(append([]byte(nil), pre...), tail...)
	// only flag bits that exist: tracing / warning / custom payload prefixes are covered by vh_parse_frame
	head := &frameHeader{version: protoVersion(ver | 0x80), flags: 0, stream: int(vI16("stream")), op: op, length: len(body)}
	headSize := 9
	if ver < 3 {
		headSize = 8
	}
	f := &framer{proto: ver, headSize: headSize, header: head, buf: body}
	fr, err := f.parseFrame()
	vAssert(err != nil || fr != nil, "C05/frame/error-or-frame")
	vObserve("err", err != nil)
}
