package gocql

import (
	"context"
	"net"
	"sync"
	"time"
)

// ---- C17: pools stay within bounds; a session always closes ----

var (
	vPool         *hostConnPool
	vConnects     int
	vConnCloses   int
	vDialFails    []bool
	vFillEpochs   int
	vPendingAtFill int
	vLateClose    bool
)

// Session.connect stub: a fresh ghost connection or a dial error
func vstubSessionConnect(s *Session, ctx context.Context, host *HostInfo, eh ConnErrorHandler) (*Conn, error) {
	vConnects++
	if vBool("dial_fails") {
		return nil, vErrIO
	}
	if vLateClose && vBool("pool_closed_while_dialling") {
		vPool.closed = true
		vPool.conns = nil
	}
	return &Conn{addr: "ghost"}, nil
}
// Conn.Close as the pool sees it: closeWithError closes the socket and, when that fails, reports the
// error to the connection's error handler - the pool itself (conn.go closeWithError)
var vCloseFailBudget int

func vstubConnClose(c *Conn) {
	vConnCloses++
	if vPool != nil && vCloseFailBudget > 0 && vBool("socket_close_fails") {
		vCloseFailBudget-- // bound: at most one failing close per analysed call
		vPool.HandleError(c, vErrIO, true)
	}
}
func vstubInt31n(n int32) int32                            { return 0 }
func vstubHandleNodeDown(s *Session, ip interface{}, port int) {}

type vReconn struct{ max int }

func (r vReconn) GetInterval(i int) time.Duration { return 0 }
func (r vReconn) GetMaxRetries() int             { return r.max }

type vConviction struct{}

func (vConviction) AddFailure(err error, host *HostInfo) bool { return false }
func (vConviction) Reset(host *HostInfo)                      {}

// what other goroutines may do to the pool between two critical sections of the filler (rely T5):
// close it, start their own filling epoch, remove connections, or complete an epoch of their own that added
// connections up to size - never add beyond size, never add while this goroutine owns the epoch
func vOnLockPool(mu *sync.RWMutex) {
	if vPool == nil || mu != &vPool.mu {
		return
	}
	switch vChoose("meanwhile", 5) {
	case 4:
		// another trigger ran a whole filling epoch meanwhile and it ended part-way (a dial failed): the pool
		// gained a connection and is not marked filling. Only the owner of an epoch adds connections, so this
		// cannot happen while this goroutine owns one (filling is then true).
		if !vPool.filling && !vPool.closed && len(vPool.conns) < vPool.size {
			vPool.conns = append(vPool.conns[:len(vPool.conns):len(vPool.conns)], &Conn{addr: "other-filler"})
		}
	case 1:
		vPool.closed = true // Close(): marks closed and empties the pool
		vPool.conns = nil
	case 2:
		if !vPool.filling && vFillEpochs == 0 {
			vPool.filling = true // another trigger won the race to fill
		}
	case 3:
		if n := len(vPool.conns); n > 0 && vFillEpochs == 0 {
			vPool.conns = vPool.conns[:n-1] // a connection failed and was removed
		}
	}
}

func vNewPool() *hostConnPool {
	s := &Session{logger: vNopLogger{}, ctx: context.Background()}
	s.cfg.ReconnectionPolicy = vReconn{max: 1 + vChoose("max_retries", 2)}
	s.cfg.ConvictionPolicy = vConviction{}
	size := 1 + vChoose("size", vBound("max_size"))
	p := &hostConnPool{session: s, host: &HostInfo{hostId: "h", connectAddress: vAddrs[0]}, size: size, logger: vNopLogger{}}
	have := vChoose("have", size+1)
	for i := 0; i < have; i++ {
		p.conns = append(p.conns, &Conn{addr: "old"})
	}
	p.closed = vBool("closed")
	p.filling = vBool("filling")
	vPool, vConnects, vConnCloses, vFillEpochs = p, 0, 0, 0
	vCloseFailBudget = vBound("close_fail")
	return p
}

func vh_pool_fill() {
	p := vNewPool()
	vLateClose = true
	before := len(p.conns)
	wasFilling, wasClosed := p.filling, p.closed
	p.fill()
	// never more connections than configured
	vAssert(len(p.conns) <= p.size, "C17/pool/never-more-than-size")
	// dials only happen when this call owned the filling epoch and at most for the missing ones
	vAssert(vConnects <= 2*(p.size-0), "C17/pool/dials-bounded")
	if wasFilling || wasClosed {
		vAssert(vConnects == 0, "C17/pool/no-concurrent-filling-and-no-filling-of-a-closed-pool")
	}
	if vConnects > 0 {
		vAssert(!p.filling, "C17/pool/filling-epoch-is-closed-again")
	}
	// a connection that arrives after the pool was closed is closed, not kept
	if p.closed && !wasClosed {
		vAssert(len(p.conns) == 0, "C17/pool/late-connection-is-not-kept-in-a-closed-pool")
	}
	_ = before
	vObserve("conns", len(p.conns))
}

func vh_pool_handle_error() {
	p := vNewPool()
	vAssume(len(p.conns) > 0 || true)
	var target *Conn
	inPool := vBool("conn_in_pool")
	if inPool && len(p.conns) > 0 {
		target = p.conns[vChoose("which", len(p.conns))]
	} else {
		target = &Conn{addr: "stranger"}
		inPool = false
	}
	connClosed := vBool("conn_closed")
	before := append([]*Conn(nil), p.conns...)
	p.HandleError(target, vErrIO, connClosed)
	if !connClosed || p.closed {
		vAssert(len(p.conns) == len(before), "C17/pool/open-connection-or-closed-pool-untouched")
	} else if inPool {
		gone := true
		for _, c := range p.conns {
			if c == target {
				gone = false
			}
		}
		vAssert(gone && len(p.conns) == len(before)-1, "C17/pool/closed-connection-is-removed")
		vAssert(vEventCount("go:") == 1, "C17/pool/lost-connection-triggers-a-refill")
	} else {
		vAssert(len(p.conns) == len(before) && vEventCount("go:") == 0, "C17/pool/unknown-connection-ignored")
	}
	vObserve("conns", len(p.conns))
}

func vh_pool_close() {
	p := vNewPool()
	n := len(p.conns)
	was := p.closed
	p.Close()
	vAssert(p.closed && len(p.conns) == 0 || was, "C17/pool/close-empties-the-pool")
	if !was {
		vAssert(vConnCloses == n, "C17/pool/close-closes-every-connection")
	} else {
		vAssert(vConnCloses == 0, "C17/pool/second-close-does-nothing")
	}
	// a connection that arrives later is closed, not kept
	vLateClose = false
	c0 := vConnCloses
	err := p.connect()
	if err == nil && vConnects > 0 {
		vAssert(len(p.conns) == 0 || was, "C17/pool/no-connection-kept-after-close")
		if !was {
			vAssert(vConnCloses == c0+1, "C17/pool/late-connection-is-closed")
		}
	}
	vObserve("closes", vConnCloses)
}

// new queries on a closed session fail immediately; Close twice is harmless
type vPanicExecutorPolicy struct{ roundRobinHostPolicy }

func vh_session_close() {
	s := &Session{logger: vNopLogger{}}
	cancelled := 0
	s.cancel = func() { cancelled++ }
	s.isClosing = vBool("already_closing")
	s.isClosed = s.isClosing && vBool("already_closed")
	wasClosing := s.isClosing
	s.Close()
	if wasClosing {
		// another Close is running (or has finished): this one must not run the shutdown sequence a second
		// time (the debouncers' stop() and the pools' Close are not re-entrant)
		vAssert(cancelled == 0, "C17/session/close-while-another-close-is-in-progress-does-nothing")
	}
	if !s.isClosing {
		vAssert(false, "C17/session/close-marks-closing")
	}
	vAssert(cancelled <= 1, "C17/session/cancel-at-most-once")
	s.Close()
	vAssert(cancelled <= 1, "C17/session/second-close-does-nothing")
	if s.isClosed {
		it := s.executeQuery(&Query{})
		vAssert(it != nil && it.err == ErrSessionClosed, "C17/session/closed-session-refuses-queries")
	}
	vObserve("cancelled", cancelled)
}

// ---- the per-session map of host pools: add / remove / close in any order ----
//
// policyConnPool keeps one hostConnPool per host id. A history of <= 3 operations over two hosts
// (addHost, removeHost, Close) is run with hostConnPool.fill / Close replaced by counters (their own
// behaviour is decided above): a host has at most one pool at a time, a pool that leaves the map is
// closed (exactly once, directly or by the spawned Close), Close leaves the map empty.

var (
	vPoolFills  map[*hostConnPool]int
	vPoolCloses map[*hostConnPool]int
)

func vstubHostPoolFill(p *hostConnPool)  { vPoolFills[p]++ }
func vstubHostPoolClose(p *hostConnPool) { vPoolCloses[p]++ }

func vh_policy_pool_history() {
	s := &Session{logger: vNopLogger{}}
	s.cfg.NumConns = 2
	pp := newPolicyConnPool(s)
	hosts := []*HostInfo{
		{hostId: "h1", connectAddress: vAddrs[0], port: 9042, state: NodeUp},
		{hostId: "h2", connectAddress: vAddrs[1], port: 9042, state: NodeUp},
	}
	vPoolFills, vPoolCloses = map[*hostConnPool]int{}, map[*hostConnPool]int{}
	var everSeen []*hostConnPool
	note := func() {
		for _, p := range pp.hostConnPools {
			known := false
			for _, q := range everSeen {
				known = known || q == p
			}
			if !known {
				everSeen = append(everSeen, p)
			}
		}
	}
	n := vBound("ops")
	for i := 0; i < n; i++ {
		h := hosts[vChoose("host", 2)]
		switch vChoose("op", 3) {
		case 0:
			pp.addHost(h)
			p, ok := pp.hostConnPools[h.hostId]
			vAssert(ok && p != nil && p.host == h && p.size == 2, "C17/pools/added-host-has-a-pool-of-the-configured-size")
			vAssert(ok && vPoolFills[p] >= 1, "C17/pools/added-host-is-filled")
		case 1:
			before := pp.hostConnPools[h.hostId]
			pp.removeHost(h.hostId)
			_, still := pp.hostConnPools[h.hostId]
			vAssert(!still, "C17/pools/removed-host-has-no-pool")
			if before != nil {
				vAssert(vPoolCloses[before] == 1, "C17/pools/removed-pool-is-closed-once")
			}
		default:
			pp.Close()
			vAssert(len(pp.hostConnPools) == 0, "C17/pools/close-leaves-no-pool")
		}
		note()
		vAssert(len(pp.hostConnPools) <= 2, "C17/pools/at-most-one-pool-per-host")
	}
	// every pool that was ever in the map and no longer is has been closed exactly once; the others not at all
	for _, p := range everSeen {
		cur, in := pp.hostConnPools[p.host.hostId]
		if in && cur == p {
			vAssert(vPoolCloses[p] == 0, "C17/pools/a-pool-in-use-is-not-closed")
		} else {
			vAssert(vPoolCloses[p] == 1, "C17/pools/a-pool-that-left-the-map-is-closed-exactly-once")
		}
	}
	vObserve("pools", len(pp.hostConnPools))
}

// connectMany under the latest-possible schedule of its dial goroutines (spec defer_go: each runs only
// when connectMany waits): when it returns, every dial it started has finished - the caller ends the
// filling epoch right afterwards, a dial still in flight would add its connection to a pool that a new
// epoch is already filling (more connections than configured).
func vh_connect_many() {
	p := vNewPool()
	vLateClose = true
	vAssume(!p.closed)
	p.filling = true // this goroutine owns the filling epoch
	vFillEpochs = 1
	count := 1 + vChoose("count", 2)
	vAssume(len(p.conns)+count <= p.size)
	before := len(p.conns)
	err := p.connectMany(count)
	vAssert(vPendingCount() == 0, "C17/pool/connect-many-returns-only-after-every-dial-it-started-has-finished")
	vAssert(vEventCount("go:") == count, "C17/pool/connect-many-starts-one-dial-per-missing-connection")
	added := len(p.conns) - before
	if !p.closed {
		vAssert(added <= count && len(p.conns) <= p.size, "C17/pool/never-more-than-size")
		if err == nil {
			vAssert(added == count, "C17/pool/connect-many-without-error-added-every-connection")
		}
	}
	vRunPending()
	if !p.closed {
		vAssert(len(p.conns) <= p.size, "C17/pool/never-more-than-size")
	}
	vObserve("added", added)
}

// ---- a connection attempt that fails leaves no socket behind ----
//
// Session.dialWithoutObserver: the dial may fail, the per-host AuthProvider may fail, the startup
// handshake may fail. Whenever no *Conn is returned, the socket the dialer opened has been closed
// (nobody else holds it: no pool's or session's Close can ever reach it).
type vTrackAddr struct{}

func (vTrackAddr) Network() string { return "tcp" }
func (vTrackAddr) String() string  { return "10.0.0.1:9042" }

type vTrackConn struct {
	vNetConn
}

func (c *vTrackConn) RemoteAddr() net.Addr { return vTrackAddr{} }

type vTrackDialer struct {
	conn  *vTrackConn
	fails bool
	dials int
}

func (d *vTrackDialer) DialHost(ctx context.Context, host *HostInfo) (*DialedHost, error) {
	d.dials++
	if d.fails {
		return nil, vErrIO
	}
	return &DialedHost{Conn: d.conn}, nil
}

func vstubSetupConn(s *startupCoordinator, ctx context.Context) error {
	if vBool("handshake_fails") {
		return vErrIO
	}
	return nil
}

func vh_dial_cleanup() {
	d := &vTrackDialer{conn: &vTrackConn{}, fails: vBool("dial_fails")}
	s := &Session{logger: vNopLogger{}, ctx: context.Background()}
	cfg := &ConnConfig{ProtoVersion: 4, HostDialer: d, Logger: vNopLogger{}}
	if vBool("auth_provider_set") {
		providerFails := vBool("auth_provider_fails")
		s.cfg.AuthProvider = func(h *HostInfo) (Authenticator, error) {
			if providerFails {
				return nil, vErrIO
			}
			return PasswordAuthenticator{Username: "u", Password: "p"}, nil
		}
		cfg.AuthProvider = s.cfg.AuthProvider
	}
	host := &HostInfo{hostId: "h", connectAddress: vAddrs[0], port: 9042}
	c, err := s.dialWithoutObserver(context.Background(), host, cfg, vErrHandler{})
	vAssert((c != nil) != (err != nil), "C17/dial/a-connection-or-an-error")
	if err != nil {
		vAssert(d.fails || d.conn.closed >= 1, "C17/dial/a-failed-attempt-leaves-no-socket-open")
	} else if c != nil {
		vAssert(d.conn.closed == 0 && c.conn == net.Conn(d.conn), "C17/dial/a-successful-attempt-owns-its-socket")
		c.Close()
		vAssert(d.conn.closed == 1, "C17/dial/closing-the-connection-closes-its-socket")
	}
	vAssert(d.dials == 1, "C17/dial/one-dial-per-attempt")
}

// ---- controlConn.close: after it returns, the control connection that is current is closed ----
//
// A reconnect running on the heartbeat goroutine may complete (store a fresh connection, close the old
// one) at any moment UNTIL that goroutine has taken close()'s rendezvous send on quit; afterwards it
// only exits. The environment completes such a reconnect at the state CAS of close(), the one point of
// close() before the rendezvous.
var (
	vCtl        *controlConn
	vCtlFresh   *Conn
	vCtlSwapped bool
)

func vstubCtlCAS(addr *int32, old, new int32) bool {
	if vCtl != nil && addr == &vCtl.state && !vCtlSwapped && vSentOn(vCtl.quit) == 0 && vBool("an_in_flight_reconnect_completes_now") {
		vCtlSwapped = true
		if prev := vCtl.getConn(); prev != nil {
			prev.conn.Close() // setupConn closes the connection it replaces
		}
		vCtl.conn.Store(&connHost{conn: vCtlFresh, host: &HostInfo{hostId: "n"}})
	}
	if *addr == old {
		*addr = new
		return true
	}
	return false
}

func vCtlTracked() *Conn {
	c := &Conn{conn: &vNetConn{}, calls: map[int]*callReq{}, errorHandler: vErrHandlerNop{}, logger: vNopLogger{}}
	c.ctx = context.Background()
	c.cancel = func() {}
	return c
}

type vErrHandlerNop struct{}

func (vErrHandlerNop) HandleError(conn *Conn, err error, closed bool) {}

func vh_control_close() {
	cc := &controlConn{session: &Session{logger: vNopLogger{}}, quit: make(chan struct{})}
	vEnvChan(cc.quit) // the heartbeat goroutine receives
	cur := vCtlTracked()
	vCtlFresh = vCtlTracked()
	cc.conn.Store(&connHost{conn: cur, host: &HostInfo{hostId: "o"}})
	cc.state = controlConnStarted
	if vBool("never_started") {
		cc.state = controlConnStarting
	}
	vCtl, vCtlSwapped = cc, false
	cc.close()
	now := cc.getConn()
	vAssert(now != nil && now.conn.closed, "C17/control/the-current-control-connection-is-closed-after-close")
	vAssert(cur.closed, "C17/control/the-original-control-connection-is-closed-after-close")
	vObserve("swapped", vCtlSwapped)
}
