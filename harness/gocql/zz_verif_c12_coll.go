package gocql

import "bytes"

// ---- C12 / C02: collections, tuples and user-defined types ----
//
// Reference framing (native protocol spec, section 6 of v3/v4, 6/7 of v1/v2): a list or set is
// [n] followed by n elements, a map [n] followed by n key/value pairs, every element/key/value being
// [bytes]: a length followed by that many bytes, length -1 = null. Counts and lengths are [short]
// (unsigned 16 bit) for protocol <= 2 and [int] (signed 32 bit) from protocol 3; protocol <= 2 has
// no null elements. A tuple or UDT value is the sequence of its fields as [int]-length [bytes].

func refCollSize(proto byte, n int) []byte {
	if proto > 2 {
		return refBE(int64(n), 4)
	}
	return refBE(int64(n), 2)
}

type refElem struct {
	null bool
	data []byte
}

func refCollection(proto byte, elems []refElem) []byte {
	out := refCollSize(proto, len(elems))
	for _, e := range elems {
		if e.null {
			out = append(out, refCollSize(proto, -1)...)
			continue
		}
		out = append(out, refCollSize(proto, len(e.data))...)
		out = append(out, e.data...)
	}
	return out
}

func refFields(elems []refElem) []byte {
	var out []byte
	for _, e := range elems {
		if e.null {
			out = append(out, refBE(-1, 4)...)
			continue
		}
		out = append(out, refBE(int64(len(e.data)), 4)...)
		out = append(out, e.data...)
	}
	return out
}

func vListType(elem Type) CollectionType {
	p := byte(vBound("proto"))
	typ := TypeList
	if vBound("set") == 1 {
		typ = TypeSet
	}
	return CollectionType{NativeType: NativeType{proto: p, typ: typ}, Elem: NativeType{proto: p, typ: elem}}
}

// list<int> / set<int> from []int32 and back
func vh_list_int() {
	p := byte(vBound("proto"))
	info := vListType(TypeInt)
	n := vChoose("n", vBound("N")+1)
	src := make([]int32, n)
	ref := make([]refElem, n)
	for i := range src {
		src[i] = vI32("e")
		ref[i] = refElem{data: refBE(int64(src[i]), 4)}
	}
	data, err := Marshal(info, src)
	want := refCollection(p, ref)
	vAssert(err == nil && refBytesSame(data, want), "C12/list/int32-slice/bytes")
	var back []int32
	ok := Unmarshal(info, data, &back) == nil && len(back) == n
	for i := 0; ok && i < n; i++ {
		ok = back[i] == src[i]
	}
	vAssert(ok, "C02/list/int32-slice/roundtrip")
	// the specification's encoding decodes to the value, also into a wider element type and an array
	var wide []int64
	ok = Unmarshal(info, want, &wide) == nil && len(wide) == n
	for i := 0; ok && i < n; i++ {
		ok = wide[i] == int64(src[i])
	}
	vAssert(ok, "C12/list/decode-into-int64-slice")
	// nil slice is null, empty slice is an empty (non-null) collection
	var nilSlice []int32
	d0, e0 := Marshal(info, nilSlice)
	vAssert(e0 == nil && d0 == nil, "C02/list/nil-slice-is-null")
	d1, e1 := Marshal(info, []int32{})
	vAssert(e1 == nil && d1 != nil && refBytesSame(d1, refCollSize(p, 0)), "C02/list/empty-slice-is-empty-not-null")
	keep := []int32{1}
	vAssert(Unmarshal(info, nil, &keep) == nil && keep == nil, "C02/list/null-into-slice-is-nil")
	vObserve("len", len(data))
}

// list<int> / set<text> with null elements: []*T in both directions
func vh_list_nullable() {
	p := byte(vBound("proto"))
	n := vChoose("n", vBound("N")+1)
	// ---- int elements
	info := vListType(TypeInt)
	src := make([]*int32, n)
	ref := make([]refElem, n)
	anyNull := false
	for i := range src {
		if vBool("null") {
			ref[i] = refElem{null: true}
			anyNull = true
		} else {
			v := vI32("e")
			src[i] = &v
			ref[i] = refElem{data: refBE(int64(v), 4)}
		}
	}
	want := refCollection(p, ref)
	if p > 2 || !anyNull {
		data, err := Marshal(info, src)
		vAssert(err == nil && refBytesSame(data, want), "C12/list/pointer-slice/bytes")
		if err == nil && p > 2 {
			// what was written decodes to an equal value: nil stays nil, a value stays that value
			var rb []*int32
			rok := Unmarshal(info, data, &rb) == nil && len(rb) == n
			for i := 0; rok && i < n; i++ {
				if src[i] == nil {
					rok = rb[i] == nil
				} else {
					rok = rb[i] != nil && *rb[i] == *src[i]
				}
			}
			vAssert(rok, "C02/list/pointer-slice/roundtrip")
		}
	}
	if p > 2 {
		var back []*int32
		ok := Unmarshal(info, want, &back) == nil && len(back) == n
		for i := 0; ok && i < n; i++ {
			if ref[i].null {
				ok = back[i] == nil
			} else {
				ok = back[i] != nil && *back[i] == *src[i]
			}
		}
		vAssert(ok, "C12/list/decode-null-elements-into-pointer-slice")
		// into a value slice a null element is the zero value, never a neighbour's value
		var vals []int32
		ok = Unmarshal(info, want, &vals) == nil && len(vals) == n
		for i := 0; ok && i < n; i++ {
			if ref[i].null {
				ok = vals[i] == 0
			} else {
				ok = vals[i] == *src[i]
			}
		}
		vAssert(ok, "C12/list/decode-null-elements-into-value-slice")
	}
	// ---- text elements
	tinfo := vListType(TypeVarchar)
	tref := make([]refElem, n)
	tsrc := make([]*string, n)
	for i := range tref {
		if p > 2 && vBool("tnull") {
			tref[i] = refElem{null: true}
		} else {
			s := vString("s", 1)
			tsrc[i] = &s
			tref[i] = refElem{data: []byte(s)}
		}
	}
	twant := refCollection(p, tref)
	var tback []*string
	ok := Unmarshal(tinfo, twant, &tback) == nil && len(tback) == n
	for i := 0; ok && i < n; i++ {
		if tref[i].null {
			ok = tback[i] == nil
		} else {
			ok = tback[i] != nil && *tback[i] == *tsrc[i]
		}
	}
	vAssert(ok, "C12/list/decode-text-elements-with-nulls")
	var sback []string
	ok = Unmarshal(tinfo, twant, &sback) == nil && len(sback) == n
	for i := 0; ok && i < n; i++ {
		if tref[i].null {
			ok = sback[i] == ""
		} else {
			ok = sback[i] == *tsrc[i]
		}
	}
	vAssert(ok, "C12/list/decode-text-null-is-empty-string")
	vObserve("len", len(want))
}

// map<text,int> from map[string]int32 and back (<= 2 entries; entry order is the map's)
func vh_map_text_int() {
	p := byte(vBound("proto"))
	info := CollectionType{NativeType: NativeType{proto: p, typ: TypeMap}, Key: NativeType{proto: p, typ: TypeVarchar}, Elem: NativeType{proto: p, typ: TypeInt}}
	n := vChoose("n", vBound("N")+1)
	k1, k2 := vStringN("k1", 1), vStringN("k2", 1)
	v1, v2 := vI32("v1"), vI32("v2")
	src := map[string]int32{}
	if n >= 1 {
		src[k1] = v1
	}
	if n >= 2 {
		vAssume(k1 != k2)
		src[k2] = v2
	}
	data, err := Marshal(info, src)
	e1 := append(append(refCollSize(p, len(k1)), []byte(k1)...), append(refCollSize(p, 4), refBE(int64(v1), 4)...)...)
	e2 := append(append(refCollSize(p, len(k2)), []byte(k2)...), append(refCollSize(p, 4), refBE(int64(v2), 4)...)...)
	var wantA, wantB []byte
	switch n {
	case 0:
		wantA = refCollSize(p, 0)
		wantB = wantA
	case 1:
		wantA = append(refCollSize(p, 1), e1...)
		wantB = wantA
	default:
		wantA = append(append(refCollSize(p, 2), e1...), e2...)
		wantB = append(append(refCollSize(p, 2), e2...), e1...)
	}
	vAssert(err == nil && (refBytesSame(data, wantA) || refBytesSame(data, wantB)), "C12/map/string-int32/bytes")
	var back map[string]int32
	ok := Unmarshal(info, data, &back) == nil && len(back) == n
	if n >= 1 {
		g, has := back[k1]
		ok = ok && has && g == v1
	}
	if n >= 2 {
		g, has := back[k2]
		ok = ok && has && g == v2
	}
	vAssert(ok, "C02/map/string-int32/roundtrip")
	// spec encoding (either entry order) decodes to the value
	var dec map[string]int32
	ok = Unmarshal(info, wantB, &dec) == nil && len(dec) == n
	if n >= 1 {
		ok = ok && dec[k1] == v1
	}
	if n >= 2 {
		ok = ok && dec[k2] == v2
	}
	vAssert(ok, "C12/map/decode")
	var nilMap map[string]int32
	d0, e0 := Marshal(info, nilMap)
	vAssert(e0 == nil && d0 == nil, "C02/map/nil-map-is-null")
	vAssert(Unmarshal(info, nil, &back) == nil && back == nil, "C02/map/null-into-map-is-nil")
	vObserve("len", len(data))
}

// field types are the ones the driver itself decodes a tuple's elements into (goType: CQL int -> int)
type vTupleStruct12 struct {
	A int
	B *string
}

// tuple<int,text>: []interface{} and struct sources, typed nil pointers, decode into both
func vh_tuple() {
	p := byte(vBound("proto"))
	info := TupleTypeInfo{NativeType: NativeType{proto: p, typ: TypeTuple}, Elems: []TypeInfo{NativeType{proto: p, typ: TypeInt}, NativeType{proto: p, typ: TypeVarchar}}}
	a := vI32("a")
	s := vString("s", 2)
	bNull := vBool("b_null")
	ref := []refElem{{data: refBE(int64(a), 4)}, {data: []byte(s)}}
	var sp *string
	if bNull {
		ref[1] = refElem{null: true}
	} else {
		sp = &s
	}
	want := refFields(ref)
	// struct source with a typed (nil) pointer field
	d1, e1 := Marshal(info, vTupleStruct12{A: int(a), B: sp})
	vAssert(e1 == nil && refBytesSame(d1, want), "C12/tuple/struct/bytes")
	// []interface{} source: untyped nil is null; a typed nil pointer is null as well
	var second interface{} = sp
	if bNull && vBool("untyped_nil") {
		second = nil
	}
	d2, e2 := Marshal(info, []interface{}{a, second})
	vAssert(e2 == nil && refBytesSame(d2, want), "C12/tuple/interface-slice/bytes")
	// decode into struct (C12 labels: the specification's bytes; C02 labels: what the driver itself wrote)
	var st vTupleStruct12
	ok := Unmarshal(info, d1, &st) == nil && st.A == int(a)
	if bNull {
		ok = ok && st.B == nil
	} else {
		ok = ok && st.B != nil && *st.B == s
	}
	vAssert(ok, "C02/tuple/struct/roundtrip")
	// decode into the destinations Iter.Scan passes for a tuple column
	var ga int32
	var gs *string
	ok = Unmarshal(info, d2, []interface{}{&ga, &gs}) == nil && ga == a
	if bNull {
		ok = ok && gs == nil
	} else {
		ok = ok && gs != nil && *gs == s
	}
	vAssert(ok, "C02/tuple/interface-slice/roundtrip")
	vObserve("len", len(want))
}

type vUDTStruct12 struct {
	First  int     `cql:"a"`
	Second *string `cql:"b"`
}

// UDT {a int, b text}: map and tagged-struct sources, missing / null fields, decode into both
func vh_udt() {
	p := byte(vBound("proto"))
	info := UDTTypeInfo{NativeType: NativeType{proto: p, typ: TypeUDT}, KeySpace: "k", Name: "u",
		Elements: []UDTField{{Name: "a", Type: NativeType{proto: p, typ: TypeInt}}, {Name: "b", Type: NativeType{proto: p, typ: TypeVarchar}}}}
	a := vI32("a")
	s := vString("s", 2)
	bNull := vBool("b_null")
	ref := []refElem{{data: refBE(int64(a), 4)}, {data: []byte(s)}}
	var sp *string
	if bNull {
		ref[1] = refElem{null: true}
	} else {
		sp = &s
	}
	want := refFields(ref)
	d1, e1 := Marshal(info, vUDTStruct12{First: int(a), Second: sp})
	vAssert(e1 == nil && refBytesSame(d1, want), "C12/udt/tagged-struct/bytes")
	m := map[string]interface{}{"a": a}
	if !bNull {
		m["b"] = s
	}
	d2, e2 := Marshal(info, m)
	vAssert(e2 == nil && refBytesSame(d2, want), "C12/udt/map/bytes")
	var st vUDTStruct12
	ok := Unmarshal(info, d1, &st) == nil && st.First == int(a)
	if bNull {
		ok = ok && st.Second == nil
	} else {
		ok = ok && st.Second != nil && *st.Second == s
	}
	vAssert(ok, "C02/udt/tagged-struct/roundtrip")
	var gm map[string]interface{}
	ok = Unmarshal(info, d2, &gm) == nil && len(gm) == 2
	if ok {
		ga, isInt := gm["a"].(int)
		ok = isInt && ga == int(a)
		gb, isStr := gm["b"].(string)
		if bNull {
			ok = ok && isStr && gb == ""
		} else {
			ok = ok && isStr && gb == s
		}
	}
	vAssert(ok, "C02/udt/map/roundtrip")
	// a value with fewer fields than the type (older schema) leaves the rest at zero
	var short vUDTStruct12
	vAssert(Unmarshal(info, refFields(ref[:1]), &short) == nil && short.First == int(a) && short.Second == nil, "C12/udt/decode-shorter-value")
	vObserve("len", len(want))
}

// one nesting level: list<frozen<tuple<int,text>>> and map<text, frozen<list<int>>>
func vh_nested() {
	p := byte(vBound("proto"))
	tup := TupleTypeInfo{NativeType: NativeType{proto: p, typ: TypeTuple}, Elems: []TypeInfo{NativeType{proto: p, typ: TypeInt}, NativeType{proto: p, typ: TypeVarchar}}}
	linfo := CollectionType{NativeType: NativeType{proto: p, typ: TypeList}, Elem: tup}
	n := vChoose("n", 3)
	src := make([]vTupleStruct12, n)
	ref := make([]refElem, n)
	for i := range src {
		src[i].A = int(vI32("a"))
		fields := []refElem{{data: refBE(int64(src[i].A), 4)}, {null: true}}
		if vBool("has_b") {
			s := vStringN("s", 1)
			src[i].B = &s
			fields[1] = refElem{data: []byte(s)}
		}
		ref[i] = refElem{data: refFields(fields)}
	}
	want := refCollection(p, ref)
	data, err := Marshal(linfo, src)
	vAssert(err == nil && refBytesSame(data, want), "C12/nested/list-of-tuples/bytes")
	var back []vTupleStruct12
	ok := Unmarshal(linfo, data, &back) == nil && len(back) == n
	for i := 0; ok && i < n; i++ {
		ok = back[i].A == src[i].A && (back[i].B == nil) == (src[i].B == nil)
		if ok && src[i].B != nil {
			ok = *back[i].B == *src[i].B
		}
	}
	vAssert(ok, "C02/nested/list-of-tuples/roundtrip")
	// map<text, list<int>> with one entry
	minfo := CollectionType{NativeType: NativeType{proto: p, typ: TypeMap}, Key: NativeType{proto: p, typ: TypeVarchar},
		Elem: CollectionType{NativeType: NativeType{proto: p, typ: TypeList}, Elem: NativeType{proto: p, typ: TypeInt}}}
	k := vStringN("k", 1)
	m := vChoose("m", 3)
	inner := make([]int32, m)
	iref := make([]refElem, m)
	for i := range inner {
		inner[i] = vI32("x")
		iref[i] = refElem{data: refBE(int64(inner[i]), 4)}
	}
	ival := refCollection(p, iref)
	mwant := append(refCollSize(p, 1), append(append(refCollSize(p, len(k)), []byte(k)...), append(refCollSize(p, len(ival)), ival...)...)...)
	md, me := Marshal(minfo, map[string][]int32{k: inner})
	vAssert(me == nil && refBytesSame(md, mwant), "C12/nested/map-of-lists/bytes")
	var mb map[string][]int32
	ok = Unmarshal(minfo, md, &mb) == nil && len(mb) == 1 && len(mb[k]) == m
	for i := 0; ok && i < m; i++ {
		ok = mb[k][i] == inner[i]
	}
	vAssert(ok, "C02/nested/map-of-lists/roundtrip")
	vObserve("len", len(want))
}

// the collection header arithmetic on its own, over the whole count range of each framing:
// [short] n for protocol <= 2 (0..65535, unsigned), [int] n afterwards (signed 32 bit).
func vh_collection_size() {
	p := byte(1 + vChoose("proto", 5))
	info := CollectionType{NativeType: NativeType{proto: p, typ: TypeList}, Elem: NativeType{proto: p, typ: TypeInt}}
	n := vInt("n")
	vAssume(n >= 0)
	var buf bytes.Buffer
	err := writeCollectionSize(info, n, &buf)
	b := buf.Bytes()
	if p <= 2 {
		vAssert((err == nil) == (n <= 65535), "C12/collection-size/short-count-range")
		if err == nil {
			vAssert(len(b) == 2 && int(b[0]) == n>>8 && int(b[1]) == n&0xff, "C12/collection-size/short-bytes")
		}
	} else {
		vAssert((err == nil) == (n <= 0x7fffffff), "C12/collection-size/int-count-range")
		if err == nil {
			vAssert(len(b) == 4 && int(b[0]) == n>>24 && int(b[1]) == (n>>16)&0xff && int(b[2]) == (n>>8)&0xff && int(b[3]) == n&0xff, "C12/collection-size/int-bytes")
		}
	}
	if err == nil {
		size, read, rerr := readCollectionSize(info, b)
		vAssert(rerr == nil && size == n && read == len(b), "C02/collection-size/count-roundtrip")
	}
	// decoding arbitrary header bytes
	d := vBytesN("hdr", 4)
	k := vChoose("have", 5)
	size, read, rerr := readCollectionSize(info, d[:k])
	if p <= 2 {
		vAssert((rerr == nil) == (k >= 2), "C12/collection-size/short-eof")
		if rerr == nil {
			vAssert(read == 2 && size == int(d[0])*256+int(d[1]), "C12/collection-size/decode-short-unsigned")
		}
	} else {
		vAssert((rerr == nil) == (k >= 4), "C12/collection-size/int-eof")
		if rerr == nil {
			want := int(int32(uint32(d[0])<<24 | uint32(d[1])<<16 | uint32(d[2])<<8 | uint32(d[3])))
			vAssert(read == 4 && size == want, "C12/collection-size/decode-int-signed")
		}
	}
}
