package gocql

import (
	"context"
	"crypto/tls"
	"crypto/x509"
	"errors"
	"net"
)

// ---- C20: TLS verification table, file errors, credential disclosure ----

var vErrIO = errors.New("verif: file error")

// stubs for the file / PEM / key-pair functions (crypto and os are not encodable)
var (
	vReadFileFails bool
	vAppendOK      bool
	vKeyPairFails  bool
	vFileCalls     int
)

func vstubReadFile(name string) ([]byte, error) {
	vFileCalls++
	if vReadFileFails {
		return nil, vErrIO
	}
	return []byte("pem"), nil
}
func vstubAppendCerts(s *x509.CertPool, pem []byte) bool { return vAppendOK }
func vstubLoadKeyPair(certFile, keyFile string) (tls.Certificate, error) {
	vFileCalls++
	if vKeyPairFails {
		return tls.Certificate{}, vErrIO
	}
	return tls.Certificate{}, nil
}
func vstubNewCertPool() *x509.CertPool { return new(x509.CertPool) }

func vh_tls_table() {
	opts := &SslOptions{EnableHostVerification: vBool("host_verification")}
	haveCfg := vBool("have_config")
	var user *tls.Config
	skip := vBool("insecure_skip_verify")
	name := vString("server_name", 3)
	if haveCfg {
		user = &tls.Config{InsecureSkipVerify: skip, ServerName: name}
		opts.Config = user
	}
	cfg, err := setupTLSConfig(opts)
	vAssert(err == nil && cfg != nil, "C20/tls/no-files-no-error")
	if err != nil || cfg == nil {
		return
	}
	// documented table
	wantVerify := opts.EnableHostVerification
	if haveCfg {
		wantVerify = !skip || opts.EnableHostVerification
	}
	vAssert(cfg.InsecureSkipVerify == !wantVerify, "C20/tls/verification-table")
	if haveCfg {
		vAssert(user.InsecureSkipVerify == skip && user.ServerName == name, "C20/tls/callers-config-untouched")
		vAssert(cfg != user, "C20/tls/works-on-a-copy")
		vAssert(cfg.ServerName == name, "C20/tls/server-name-kept")
	}
	// per-connection config
	addr := vString("addr", 6)
	before := cfg.ServerName
	beforeSkip := cfg.InsecureSkipVerify
	per := tlsConfigForAddr(cfg, addr)
	vAssert(cfg.ServerName == before && cfg.InsecureSkipVerify == beforeSkip, "C20/tls/shared-config-not-mutated")
	vAssert(per.InsecureSkipVerify == cfg.InsecureSkipVerify, "C20/tls/per-conn-keeps-verification")
	if !cfg.InsecureSkipVerify && before == "" {
		// host part: everything before the last ':' (whole string when there is none)
		cut := len(addr)
		for i := len(addr) - 1; i >= 0; i-- {
			if addr[i] == ':' {
				cut = i
				break
			}
		}
		vAssert(per.ServerName == addr[:cut], "C20/tls/server-name-is-dialled-host")
	} else {
		vAssert(per.ServerName == before, "C20/tls/explicit-server-name-kept")
	}
	vObserve("skip", cfg.InsecureSkipVerify)
}

func vh_tls_files() {
	opts := &SslOptions{EnableHostVerification: vBool("host_verification")}
	if vBool("have_config") {
		opts.Config = &tls.Config{InsecureSkipVerify: vBool("insecure_skip_verify")}
	}
	ca, cert, key := vBool("ca"), vBool("cert"), vBool("key")
	if ca {
		opts.CaPath = "ca.pem"
	}
	if cert {
		opts.CertPath = "cert.pem"
	}
	if key {
		opts.KeyPath = "key.pem"
	}
	vReadFileFails, vAppendOK, vKeyPairFails = vBool("read_fails"), vBool("pem_parses"), vBool("keypair_fails")
	vFileCalls = 0
	cfg, err := setupTLSConfig(opts)
	caBad := ca && (vReadFileFails || !vAppendOK)
	kpBad := (cert || key) && vKeyPairFails
	if caBad || kpBad {
		vAssert(err != nil && cfg == nil, "C20/tls/unreadable-or-unparsable-file-is-an-error")
	} else {
		vAssert(err == nil && cfg != nil, "C20/tls/good-files-no-error")
		if cfg != nil {
			vAssert((len(cfg.Certificates) == 1) == (cert || key), "C20/tls/key-pair-installed")
			vAssert((cfg.RootCAs != nil) == ca, "C20/tls/ca-installed")
		}
	}
	vObserve("err", err != nil)
}

// credentials only go to an approved authenticator class, as a SASL PLAIN token
func vh_auth_challenge() {
	user, pass := vString("user", 3), vString("pass", 3)
	p := PasswordAuthenticator{Username: user, Password: pass}
	custom := vBool("custom_list")
	allowed := vString("allowed", 4)
	if custom {
		p.AllowedAuthenticators = []string{allowed}
	}
	var class string
	switch vChoose("class_kind", 3) {
	case 0:
		class = vString("class", vBound("class_len")) // arbitrary class name
	case 1:
		class = defaultApprovedAuthenticators[vChoose("which", len(defaultApprovedAuthenticators))]
	default:
		// one character of an approved name replaced by an arbitrary byte
		b := []byte(defaultApprovedAuthenticators[0])
		b[vChoose("pos", 3)*(len(b)/3)] = vU8("c")
		class = string(b)
	}
	tok, next, err := p.Challenge([]byte(class))
	approved := false
	if custom {
		approved = class == allowed
	} else {
		for _, a := range defaultApprovedAuthenticators {
			approved = vOr(approved, class == a)
		}
	}
	vAssert((err == nil) == approved, "C20/auth/token-only-for-approved-class")
	if err != nil {
		vAssert(tok == nil, "C20/auth/no-token-on-refusal")
	} else {
		want := refCat([]byte{0}, []byte(user), []byte{0}, []byte(pass))
		vAssert(refBytesEq(tok, want), "C20/auth/sasl-plain-token")
		vAssert(next == nil, "C20/auth/no-challenger")
	}
	vObserve("approved", approved)
}

// scripted server for the startup / authentication handshake
var (
	vScript      []frame
	vScriptErr   []error
	vWrites      []frameBuilder
)

func vstubStartupWrite(s *startupCoordinator, ctx context.Context, fb frameBuilder) (frame, error) {
	vWrites = append(vWrites, fb)
	if len(vScript) == 0 {
		return nil, vErrIO
	}
	f, e := vScript[0], vScriptErr[0]
	vScript, vScriptErr = vScript[1:], vScriptErr[1:]
	return f, e
}

type vCustomAuth struct{ steps int }

func (a *vCustomAuth) Challenge(req []byte) ([]byte, Authenticator, error) {
	if vBool("auth_err") {
		return nil, nil, vErrIO
	}
	return []byte("r"), a, nil
}
func (a *vCustomAuth) Success(data []byte) error {
	if vBool("success_err") {
		return vErrIO
	}
	return nil
}

func vScriptFrame(allowChallenge bool) (frame, error) {
	n := 4
	if allowChallenge {
		n = 5
	}
	switch vChoose("resp", n) {
	case 0:
		return nil, vErrIO
	case 1:
		return errorFrame{code: 0x0100, message: "bad credentials"}, nil
	case 2:
		return &authSuccessFrame{}, nil
	case 3:
		return &readyFrame{}, nil
	}
	return &authChallengeFrame{data: []byte("c")}, nil
}

func vh_auth_handshake() {
	conn := &Conn{cfg: &ConnConfig{}}
	kind := vChoose("authenticator", 3)
	switch kind {
	case 1:
		conn.auth = PasswordAuthenticator{Username: "u", Password: "p"}
	case 2:
		conn.auth = &vCustomAuth{}
	}
	s := &startupCoordinator{conn: conn}
	vScript, vScriptErr, vWrites = nil, nil, nil
	steps := vBound("steps")
	sawSuccess := false
	for i := 0; i < steps; i++ {
		// PasswordAuthenticator returns no challenger: a further AUTH_CHALLENGE is the crash C05 records
		f, e := vScriptFrame(kind == 2)
		vScript = append(vScript, f)
		vScriptErr = append(vScriptErr, e)
	}
	class := defaultApprovedAuthenticators[0]
	if vBool("unapproved_class") {
		class = "x.Evil"
	}
	script := append([]frame(nil), vScript...)
	err := s.authenticateHandshake(context.Background(), &authenticateFrame{class: class})
	consumed := len(script) - len(vScript)
	for i := 0; i < consumed && i < len(script); i++ {
		if _, ok := script[i].(*authSuccessFrame); ok {
			sawSuccess = true
		}
	}
	if kind == 0 {
		vAssert(err != nil, "C20/handshake/no-credentials-is-an-error")
		vAssert(len(vWrites) == 0, "C20/handshake/nothing-sent-without-credentials")
	}
	if kind == 1 && class == "x.Evil" {
		vAssert(err != nil && len(vWrites) == 0, "C20/handshake/password-not-sent-to-unapproved-class")
	}
	if err == nil {
		vAssert(sawSuccess, "C20/handshake/established-only-after-auth-success")
	}
	for _, w := range vWrites {
		_, ok := w.(*writeAuthResponseFrame)
		vAssert(ok, "C20/handshake/only-auth-responses-sent")
	}
	vObserve("err", err != nil)
}

// STARTUP answered by AUTHENTICATE with no authenticator configured: error, never a session
func vh_startup_auth_required() {
	conn := &Conn{cfg: &ConnConfig{CQLVersion: "3.0.0"}}
	withAuth := vBool("with_auth")
	if withAuth {
		conn.auth = &vCustomAuth{}
	}
	s := &startupCoordinator{conn: conn}
	vWrites = nil
	var first frame
	firstKind := vChoose("startup_answer", 4)
	switch firstKind {
	case 0:
		first = &readyFrame{}
	case 1:
		first = &authenticateFrame{class: "a.B"}
	case 2:
		first = errorFrame{code: 0x000A, message: "protocol"}
	default:
		first = &supportedFrame{}
	}
	f2, e2 := vScriptFrame(true)
	vScript = []frame{first, f2}
	vScriptErr = []error{nil, e2}
	err := s.startup(context.Background(), map[string][]string{})
	if firstKind == 1 && !withAuth {
		vAssert(err != nil, "C20/startup/authenticate-without-credentials-is-an-error")
		vAssert(len(vWrites) == 1, "C20/startup/no-auth-response-without-credentials")
	}
	if err == nil {
		_, s2 := f2.(*authSuccessFrame)
		vAssert(firstKind == 0 || (firstKind == 1 && withAuth && s2), "C20/startup/session-only-after-ready-or-auth-success")
	}
	vObserve("err", err != nil)
}

// ---- the dial path: what reaches crypto/tls for each host that is dialled ----
//
// defaultHostDialer.DialHost is run for a sequence of hosts on ONE dialer (the session's), with
// tls.Client and the handshake stubbed: the stub records the configuration each connection is
// actually verified with. Asserted per dial: verification on/off is the shared configuration's, and
// when verifying without an explicit server name the name checked is the host being dialled NOW
// (not one dialled earlier, whatever host ids the hosts carry - contact points have none).

type vTLSSeen struct {
	skip bool
	name string
}

var vTLSClientCfgs []vTLSSeen

func vstubTLSClient(conn net.Conn, config *tls.Config) *tls.Conn {
	vTLSClientCfgs = append(vTLSClientCfgs, vTLSSeen{skip: config.InsecureSkipVerify, name: config.ServerName})
	return nil
}
func vstubTLSHandshake(c *tls.Conn, ctx context.Context) error {
	if vBool("handshake_fails") {
		return vErrIO
	}
	return nil
}

type vDialer struct{ dials []string }

func (d *vDialer) DialContext(ctx context.Context, network, addr string) (net.Conn, error) {
	d.dials = append(d.dials, addr)
	return &vNetConn{}, nil
}

func vh_dial_host_tls() {
	skip := vBool("insecure_skip_verify")
	name := vString("server_name", 2)
	shared := &tls.Config{InsecureSkipVerify: skip, ServerName: name}
	d := &vDialer{}
	hd := &defaultHostDialer{dialer: d, tlsConfig: shared}
	// host ids: both empty (contact points), equal, or different
	ids := [][2]string{{"", ""}, {"id-1", "id-1"}, {"id-1", "id-2"}}[vChoose("host_ids", 3)]
	names := []string{"node-a.example", "node-b.example", ""}
	hosts := []*HostInfo{
		{hostId: ids[0], hostname: names[vChoose("name_a", 3)], connectAddress: net.IPv4(10, 0, 0, 1), port: 9042},
		{hostId: ids[1], hostname: names[vChoose("name_b", 3)], connectAddress: net.IPv4(10, 0, 0, 2), port: 9042},
	}
	vTLSClientCfgs = nil
	for i, h := range hosts {
		want := h.hostname
		if want == "" {
			want = h.connectAddress.String()
		}
		n0 := len(vTLSClientCfgs)
		_, _ = hd.DialHost(context.Background(), h)
		vAssert(len(vTLSClientCfgs) == n0+1, "C20/dial/tls-configured-dialer-always-wraps-in-tls")
		if len(vTLSClientCfgs) != n0+1 {
			return
		}
		got := vTLSClientCfgs[n0]
		vAssert(got.skip == skip, "C20/dial/verification-as-configured")
		if !skip && name == "" {
			vAssert(got.name == want, "C20/dial/certificate-checked-against-the-host-being-dialled")
		} else {
			vAssert(got.name == name, "C20/dial/explicit-server-name-kept")
		}
		vAssert(shared.InsecureSkipVerify == skip && shared.ServerName == name, "C20/dial/shared-config-not-mutated")
		_ = i
	}
	vObserve("dials", len(d.dials))
}

// ---- from ClusterConfig to what connections are dialled with (connConfig) ----
//
// SslOpts given => every connection of the default dialer is wrapped in TLS with the configuration
// setupTLSConfig derives (the documented verification table); no SslOpts => no TLS configuration; a broken
// CA / key-pair file is an error, never a silent plaintext fallback; the authenticator settings travel
// unchanged; a custom HostDialer is used as given.
type vHostDialer struct{}

func (vHostDialer) DialHost(ctx context.Context, host *HostInfo) (*DialedHost, error) {
	return nil, vErrIO
}

type vNetDialer struct{}

func (vNetDialer) DialContext(ctx context.Context, network, addr string) (net.Conn, error) {
	return nil, vErrIO
}

func vh_conn_config() {
	cfg := &ClusterConfig{}
	withSSL := vBool("ssl_opts")
	hostVerification := vBool("host_verification")
	skip := vBool("insecure_skip_verify")
	haveUserCfg := vBool("have_tls_config")
	vReadFileFails, vAppendOK, vKeyPairFails = false, true, false
	caBroken := false
	if withSSL {
		cfg.SslOpts = &SslOptions{EnableHostVerification: hostVerification}
		if haveUserCfg {
			cfg.SslOpts.Config = &tls.Config{InsecureSkipVerify: skip}
		}
		if vBool("ca_path") {
			cfg.SslOpts.CaPath = "ca.pem"
			if vBool("ca_unreadable") {
				vReadFileFails = true
				caBroken = true
			}
		}
	}
	custom := vBool("custom_host_dialer")
	if custom {
		cfg.HostDialer = vHostDialer{}
	}
	// ClusterConfig.Dialer only replaces how the TCP connection is made: TLS is still the driver's business
	ownDialer := vBool("custom_net_dialer")
	if ownDialer {
		cfg.Dialer = vNetDialer{}
	}
	auth := PasswordAuthenticator{Username: "u", Password: "p"}
	if vBool("authenticator") {
		cfg.Authenticator = auth
	}
	cc, err := connConfig(cfg)
	if custom {
		vAssert(err == nil && cc != nil && cc.HostDialer == HostDialer(vHostDialer{}), "C20/connconfig/custom-host-dialer-is-used-as-given")
		return
	}
	if withSSL && caBroken {
		vAssert(err != nil && cc == nil, "C20/connconfig/broken-ca-file-is-an-error-not-a-plaintext-fallback")
		return
	}
	vAssert(err == nil && cc != nil, "C20/connconfig/built")
	if cc == nil {
		return
	}
	hd, ok := cc.HostDialer.(*defaultHostDialer)
	vAssert(ok && hd != nil, "C20/connconfig/default-host-dialer")
	if ok && hd != nil {
		if ownDialer {
			vAssert(hd.dialer == Dialer(vNetDialer{}), "C20/connconfig/custom-net-dialer-is-used-as-given")
		}
		vAssert((hd.tlsConfig != nil) == withSSL, "C20/connconfig/tls-exactly-when-ssl-options-are-given")
		if withSSL && hd.tlsConfig != nil {
			wantVerify := hostVerification
			if haveUserCfg {
				wantVerify = !skip || hostVerification
			}
			vAssert(hd.tlsConfig.InsecureSkipVerify == !wantVerify, "C20/connconfig/dials-with-the-documented-verification-setting")
		}
	}
	if cfg.Authenticator != nil {
		pa, isPA := cc.Authenticator.(PasswordAuthenticator)
		vAssert(isPA && pa.Username == "u" && pa.Password == "p" && len(pa.AllowedAuthenticators) == 0, "C20/connconfig/authenticator-travels-unchanged")
	} else {
		vAssert(cc.Authenticator == nil && cc.AuthProvider == nil, "C20/connconfig/no-authenticator-invented")
	}
	vObserve("tls", withSSL)
}
