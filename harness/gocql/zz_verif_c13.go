package gocql

import (
	"context"
	"errors"
	"time"
)

// ---- C13: retries, idempotence and speculative execution ----

var vErrServer = errors.New("verif: server error")

type vSelHost struct {
	h     *HostInfo
	marks int
}

func (s *vSelHost) Info() *HostInfo { return s.h }
func (s *vSelHost) Mark(err error)  { s.marks++ }

type vArbPolicy struct{}

func (vArbPolicy) Attempt(q RetryableQuery) bool { return vBool("policy_attempt") }
func (vArbPolicy) GetRetryType(err error) RetryType {
	return RetryType(vChoose("retry_type", 5)) // 0 Retry 1 RetryNextHost 2 Ignore 3 Rethrow 4 undefined
}

type vQry struct {
	idempotent bool
	rt         RetryPolicy
	sp         SpeculativeExecutionPolicy
	attempts   int
	sent       []*HostInfo
	outcomes   []error
	decisions  []int // per failed attempt: the retry type the policy answered (-1 = Attempt false)
	skipSeen   []int // number of unavailable-host skips seen when each attempt was sent
	borrowed   int
	released   int
	ctx        context.Context
	maxSend    int
}

func (q *vQry) borrowForExecution()    { q.borrowed++ }
func (q *vQry) releaseAfterExecution() { q.released++ }
func (q *vQry) execute(ctx context.Context, conn *Conn) *Iter {
	q.sent = append(q.sent, conn.host)
	q.skipSeen = append(q.skipSeen, vSkips)
	vAssume(len(q.sent) <= q.maxSend) // bound on the number of attempts explored
	var err error
	switch vChoose("outcome", 6) {
	case 0:
		err = nil
	case 1:
		err = vErrServer
	case 2:
		err = context.Canceled
	case 3:
		err = context.DeadlineExceeded
	case 4:
		err = ErrNotFound
	default:
		err = ErrConnectionClosed
	}
	q.outcomes = append(q.outcomes, err)
	if err != nil && vBool("connection_lost_during_attempt") {
		// the connection the attempt ran on may be gone by the time the attempt returns
		conn.closed = true
	}
	return &Iter{err: err}
}
func (q *vQry) attempt(keyspace string, end, start time.Time, iter *Iter, host *HostInfo) {
	q.attempts++
}
func (q *vQry) retryPolicy() RetryPolicy                               { return q.rt }
func (q *vQry) speculativeExecutionPolicy() SpeculativeExecutionPolicy { return q.sp }
func (q *vQry) GetRoutingKey() ([]byte, error)                         { return nil, nil }
func (q *vQry) Keyspace() string                                       { return "" }
func (q *vQry) Table() string                                          { return "" }
func (q *vQry) IsIdempotent() bool                                     { return q.idempotent }
func (q *vQry) withContext(ctx context.Context) ExecutableQuery        { return q }
func (q *vQry) Attempts() int                                          { return q.attempts }
func (q *vQry) SetConsistency(c Consistency)                           {}
func (q *vQry) GetConsistency() Consistency                            { return Quorum }
func (q *vQry) Context() context.Context                               { return q.ctx }

// pool stubs; vSkips counts the times a host turned out to have no pool / no connection
var vSkips int

func vstubGetPool(p *policyConnPool, host *HostInfo) (*hostConnPool, bool) {
	if vBool("have_pool") {
		return &hostConnPool{host: host}, true
	}
	vSkips++
	return nil, false
}
func vstubPoolPick(pool *hostConnPool) *Conn {
	if vBool("have_conn") {
		return &Conn{host: pool.host}
	}
	vSkips++
	return nil
}

// a recording wrapper so the harness sees which decision preceded each attempt
type vRecPolicy struct {
	inner RetryPolicy
	q     *vQry
}

func (r vRecPolicy) Attempt(q RetryableQuery) bool {
	ok := r.inner.Attempt(q)
	if !ok {
		r.q.decisions = append(r.q.decisions, -1)
	}
	return ok
}
func (r vRecPolicy) GetRetryType(err error) RetryType {
	t := r.inner.GetRetryType(err)
	r.q.decisions = append(r.q.decisions, int(t))
	return t
}

func vh_retry_do() {
	nh := vBound("hosts")
	hosts := make([]*HostInfo, nh)
	sel := make([]*vSelHost, nh)
	for i := range hosts {
		hosts[i] = &HostInfo{hostId: string(rune('a' + i)), state: NodeDown}
		if vBool("up") {
			hosts[i].state = NodeUp
		}
		sel[i] = &vSelHost{h: hosts[i]}
	}
	offered := 0
	hostIter := func() SelectedHost {
		if offered >= nh {
			return nil
		}
		offered++
		return sel[offered-1]
	}
	q := &vQry{idempotent: vBool("idempotent"), ctx: context.Background(), maxSend: vBound("attempts")}
	numRetries := -1
	switch vChoose("policy", 3) {
	case 0: // no policy
	case 1:
		numRetries = vInt("num_retries")
		vAssume(numRetries >= 0 && numRetries <= vBound("attempts"))
		q.rt = vRecPolicy{&SimpleRetryPolicy{NumRetries: numRetries}, q}
	default:
		q.rt = vRecPolicy{vArbPolicy{}, q}
	}
	ex := &queryExecutor{pool: &policyConnPool{}}
	vSkips = 0
	iter := ex.do(q.ctx, q, hostIter)

	vAssert(iter != nil, "C13/do/exactly-one-result")
	if iter == nil {
		return
	}
	n := len(q.sent)
	// how often it reached servers
	if q.rt == nil {
		vAssert(n <= 1, "C13/do/sent-once-without-policy")
	}
	if numRetries >= 0 {
		vAssert(n <= numRetries+1, "C13/do/simple-policy-bounds-the-attempts")
	}
	vWitness("non-idempotent-retried", !q.idempotent && n > 1)
	vAssert(q.idempotent || n <= 1, "C13/do/non-idempotent-never-retried")
	// decisions are obeyed: attempt k+1 exists only after a failed attempt k with a retrying decision
	okSeq := true
	for k := 0; k+1 < n; k++ {
		e := q.outcomes[k]
		logical := e == context.Canceled || e == context.DeadlineExceeded || e == ErrNotFound
		dk := -2
		if k < len(q.decisions) {
			dk = q.decisions[k]
		}
		if e == nil || logical || !(dk == 0 || dk == 1) {
			okSeq = false
		}
		lost := q.skipSeen[k+1] > q.skipSeen[k] // the host lost its pool / connection meanwhile
		if dk == 0 && q.sent[k+1] != q.sent[k] && !lost {
			okSeq = false // Retry = same host (unless it became unavailable)
		}
		if dk == 1 && q.sent[k+1] == q.sent[k] {
			okSeq = false // RetryNextHost = another offered host
		}
	}
	vAssert(okSeq, "C13/do/retry-decisions-are-obeyed")
	// the result is the last attempt's (or no-connections when nothing was sent)
	if n == 0 {
		vAssert(iter.err == ErrNoConnections, "C13/do/nothing-sent-is-no-connections")
	} else {
		last := q.outcomes[n-1]
		undefined := len(q.decisions) == n && q.decisions[n-1] == 4 && last != nil
		if undefined {
			vAssert(iter.err == ErrUnknownRetryType, "C13/do/unknown-decision-is-an-error")
		} else {
			vAssert(iter.err == last, "C13/do/error-is-the-last-attempts")
		}
	}
	// hosts are only used when up and offered in order
	for _, h := range q.sent {
		vAssert(h.state == NodeUp, "C13/do/only-up-hosts")
	}
	vObserve("sent", n)
}

// speculative execution is only started for idempotent queries
type vSpec struct{ attempts int }

func (s vSpec) Attempts() int        { return s.attempts }
func (s vSpec) Delay() time.Duration { return time.Millisecond }

type vOneHostPolicy struct {
	roundRobinHostPolicy
	h *HostInfo
}

func (p *vOneHostPolicy) Pick(ExecutableQuery) NextHost {
	used := false
	return func() SelectedHost {
		if used {
			return nil
		}
		used = true
		return &vSelHost{h: p.h}
	}
}

func vh_speculative_gate() {
	h := &HostInfo{hostId: "a", state: NodeUp}
	q := &vQry{idempotent: vBool("idempotent"), ctx: context.Background(), maxSend: 2}
	q.sp = vSpec{attempts: vChoose("spec_attempts", 3)}
	ex := &queryExecutor{pool: &policyConnPool{}, policy: &vOneHostPolicy{h: h}}
	if !q.idempotent || q.sp.Attempts() == 0 {
		iter, err := ex.executeQuery(q)
		vAssert(err == nil && iter != nil, "C13/exec/one-result")
		vAssert(vEventCount("go:") == 0, "C13/exec/non-idempotent-never-speculative")
		vAssert(q.borrowed == 0, "C13/exec/no-borrow-without-speculation")
	}
	vObserve("sent", len(q.sent))
}

// run always releases the query and delivers at most one result
func vh_run_releases() {
	h := &HostInfo{hostId: "a", state: NodeUp}
	q := &vQry{idempotent: true, ctx: context.Background(), maxSend: 2}
	ex := &queryExecutor{pool: &policyConnPool{}}
	used := false
	results := make(chan *Iter, 1)
	ctx := &vCtx{done: make(chan struct{})}
	if vBool("cancelled") {
		close(ctx.done)
		ctx.err = context.Canceled
	}
	if vBool("result_slot_taken") {
		results <- &Iter{}
		vAssume(ctx.err != nil) // otherwise run legitimately waits for the consumer
	}
	before := len(results)
	noHost := vBool("policy_offers_no_usable_host") // do then ends with ErrNoConnections: that IS the query's outcome
	ex.run(ctx, q, func() SelectedHost {
		if used || noHost {
			return nil
		}
		used = true
		return &vSelHost{h: h}
	}, results)
	vAssert(q.released == 1, "C13/run/always-releases")
	vAssert(len(results) <= 1 && len(results) >= before, "C13/run/at-most-one-result")
	if ctx.err == nil && before == 0 {
		// the caller of executeQuery waits for exactly this: whatever the outcome, a live execution publishes it
		vAssert(len(results) == 1, "C13/run/a-live-execution-publishes-its-outcome")
		if len(results) == 1 && noHost {
			it := <-results
			vAssert(it != nil && it.err == ErrNoConnections, "C13/run/no-usable-host-is-reported-as-such")
		}
	}
	vObserve("n", len(results))
}

// ---- what "marked idempotent" means for the real query types ----
//
// executeQuery's speculative-execution gate (and the documented retry rule) read IsIdempotent() of the
// real *Query / *Batch. A batch is idempotent only if EVERY entry is: one non-idempotent statement makes
// re-sending the batch a duplicate write.
func vh_idempotent_flag() {
	n := vBound("entries")
	b := &Batch{}
	all := true
	for i := 0; i < n; i++ {
		f := vBool("entry_idempotent")
		b.Entries = append(b.Entries, BatchEntry{Stmt: "s", Idempotent: f})
		all = all && f
	}
	vAssert(b.IsIdempotent() == all, "C13/batch/idempotent-only-if-every-entry-is")
	q := &Query{}
	f := vBool("query_idempotent")
	vAssert(!q.IsIdempotent(), "C13/query/not-idempotent-unless-marked")
	q.Idempotent(f)
	vAssert(q.IsIdempotent() == f, "C13/query/idempotent-as-marked")
	vObserve("all", all)
}

// ---- the real *Query / *Batch through the real executor: attempts are counted ----
//
// Every retry policy bounds the sends through RetryableQuery.Attempts(); that counter is only advanced by
// Query.attempt / Batch.attempt -> queryMetrics.attempt, with or without an observer. Here the real types
// run through queryExecutor.do with Conn.executeQuery / executeBatch scripted to fail every time:
// SimpleRetryPolicy{N} must stop after N+1 sends and Attempts() must equal the number of sends.

var vRealSends int

var vRealErr error

func vstubConnExecuteQuery(c *Conn, ctx context.Context, q *Query) *Iter {
	vRealSends++
	return &Iter{err: vRealErr}
}
func vstubConnExecuteBatch(c *Conn, ctx context.Context, b *Batch) *Iter {
	vRealSends++
	return &Iter{err: vRealErr}
}

// the backoff duration (math.Pow, random jitter) is irrelevant to the attempt budget
func vstubNapTime(e *ExponentialBackoffRetryPolicy, attempts int) time.Duration { return 0 }
func vstubGetPoolAlways(p *policyConnPool, host *HostInfo) (*hostConnPool, bool) {
	return &hostConnPool{host: host}, true
}
func vstubPoolPickAlways(pool *hostConnPool) *Conn { return &Conn{host: pool.host} }

type vObs struct{ n int }

func (o *vObs) ObserveQuery(ctx context.Context, q ObservedQuery) { o.n++ }
func (o *vObs) ObserveBatch(ctx context.Context, b ObservedBatch) { o.n++ }

func vh_real_types_attempts() {
	nh := vBound("hosts")
	vRealErr = vErrServer
	sel := make([]*vSelHost, nh)
	for i := range sel {
		sel[i] = &vSelHost{h: &HostInfo{hostId: string(rune('a' + i)), connectAddress: vAddrs[i%len(vAddrs)], state: NodeUp}}
	}
	offered := 0
	hostIter := func() SelectedHost {
		if offered >= nh {
			return nil
		}
		offered++
		return sel[offered-1]
	}
	n := vChoose("num_retries", 3)
	var rt RetryPolicy = &SimpleRetryPolicy{NumRetries: n}
	sameHost := false
	switch vChoose("policy", 3) {
	case 1:
		rt = &ExponentialBackoffRetryPolicy{NumRetries: n}
	case 2:
		// one retry per consistency level to try; an UNAVAILABLE with live replicas is retried on the same host
		rt = &DowngradingConsistencyRetryPolicy{ConsistencyLevelsToTry: []Consistency{Two, One}[:n]}
		vRealErr = &RequestErrUnavailable{Alive: 1}
		sameHost = true
	}
	withObserver := vBool("with_observer")
	obs := &vObs{}
	var qry ExecutableQuery
	var attempts func() int
	if vBool("batch") {
		b := &Batch{Type: LoggedBatch, rt: rt, context: context.Background(), metrics: &queryMetrics{m: map[string]*hostMetrics{}}, spec: &NonSpeculativeExecution{}}
		b.Entries = []BatchEntry{{Stmt: "s"}}
		if withObserver {
			b.observer = obs
		}
		qry, attempts = b, b.Attempts
	} else {
		q := &Query{stmt: "s", rt: rt, context: context.Background(), metrics: &queryMetrics{m: map[string]*hostMetrics{}}, spec: &NonSpeculativeExecution{}}
		if withObserver {
			q.observer = obs
		}
		qry, attempts = q, q.Attempts
	}
	ex := &queryExecutor{pool: &policyConnPool{}}
	vRealSends = 0
	iter := ex.do(context.Background(), qry, hostIter)
	vAssert(iter != nil && iter.err != nil, "C13/real/all-attempts-failed-is-an-error")
	want := n + 1
	if nh < want && !sameHost {
		want = nh
	}
	vAssert(vRealSends == want, "C13/real/simple-policy-bounds-the-sends-of-queries-and-batches")
	vAssert(attempts() == vRealSends, "C13/real/attempts-counts-every-send")
	if withObserver {
		vAssert(obs.n == vRealSends, "C13/real/observer-sees-every-attempt")
	}
	vObserve("sends", vRealSends)
}

// ---- what a fresh Query / Batch starts from (also when the Query object is a recycled one) ----
//
// "A query not marked idempotent is never executed speculatively" and "sent once unless a policy says
// otherwise" are statements about what the application asked for on THIS query: Session.Query hands out
// pooled objects, so nothing a previous user of the object set (idempotence, speculative policy, retry
// policy, paging state, bound connection ...) may survive into the next query; the defaults are the
// session's.
func vh_query_defaults() {
	s := &Session{logger: vNopLogger{}}
	s.cfg.DefaultIdempotence = vBool("default_idempotence")
	var sessionRT RetryPolicy
	if vBool("session_retry_policy") {
		sessionRT = &SimpleRetryPolicy{NumRetries: 1}
	}
	s.cfg.RetryPolicy = sessionRT
	s.pageSize = 100
	q1 := s.Query("A", 1, 2)
	q1.Idempotent(true).SetSpeculativeExecutionPolicy(&SimpleSpeculativeExecution{NumAttempts: 2}).RetryPolicy(&SimpleRetryPolicy{NumRetries: 9})
	q1.PageState([]byte{1, 2}).PageSize(7).Consistency(All)
	q1.conn = &Conn{}
	q1.Release()
	q2 := s.Query("B")
	vAssert(q2.IsIdempotent() == s.cfg.DefaultIdempotence, "C13/defaults/idempotence-is-the-sessions-default-not-a-previous-querys")
	vAssert(q2.speculativeExecutionPolicy() != nil && q2.speculativeExecutionPolicy().Attempts() == 0, "C13/defaults/not-speculative-unless-asked")
	vAssert(q2.retryPolicy() == sessionRT, "C13/defaults/retry-policy-is-the-sessions")
	vAssert(q2.Attempts() == 0, "C13/defaults/no-attempts-counted-yet")
	vAssert(len(q2.pageState) == 0 && !q2.disableAutoPage && q2.pageSize == 100 && q2.conn == nil && q2.stmt == "B" && len(q2.values) == 0, "C15/defaults/fresh-query-starts-at-the-first-page-with-session-options")
	b := s.NewBatch(LoggedBatch)
	vAssert(b.IsIdempotent() && len(b.Entries) == 0 && b.speculativeExecutionPolicy().Attempts() == 0 && b.retryPolicy() == sessionRT && b.Attempts() == 0, "C13/defaults/batch")
	vObserve("idem", q2.IsIdempotent())
}

// ---- the speculative launcher on its own ----
//
// speculate runs after the main execution has been started. The environment: the ticker fires any
// number of times, a result may arrive and the caller's context may end at any point (each select
// picks any ready case). Started executions are counted at the go statement.
func vstubNewTicker(d time.Duration) *time.Ticker {
	ch := make(chan time.Time, 8)
	for i := 0; i < 6; i++ {
		ch <- time.Time{}
	}
	return &time.Ticker{C: ch}
}
func vstubTickerStop(t *time.Ticker) {}

func vh_speculate() {
	n := vChoose("spec_attempts", 4)
	q := &vQry{idempotent: true, ctx: context.Background(), maxSend: 1}
	sp := vSpec{attempts: n}
	ex := &queryExecutor{pool: &policyConnPool{}}
	ctx := &vCtx{done: make(chan struct{})}
	if vBool("caller_context_ends") {
		close(ctx.done)
		ctx.err = context.Canceled
	}
	results := make(chan *Iter, 1)
	first := &Iter{}
	if vBool("a_result_arrives") {
		results <- first
	}
	it := ex.speculate(ctx, q, sp, func() SelectedHost { return nil }, results)
	launched := vEventCount("go:")
	vAssert(launched <= n, "C13/speculate/at-most-the-policys-attempts-in-addition-to-the-main-execution")
	vAssert(q.borrowed == launched, "C13/speculate/one-borrow-per-started-execution")
	if it == nil {
		vAssert(launched == n, "C13/speculate/gives-up-only-after-all-attempts-were-started")
	} else {
		vAssert(it == first || (it.err != nil && ctx.err != nil), "C13/speculate/result-is-the-first-to-complete-or-the-context-error")
	}
	vObserve("launched", launched)
}

// ---- the decision table of DowngradingConsistencyRetryPolicy, as its documentation states it ----
//
// "On a read timeout: retried. On a write timeout: UNLOGGED_BATCH with at least one acknowledgement is
// retried; for other [plain] write types, if at least one replica acknowledged the write, the timeout is
// ignored. On unavailable: retried if at least one replica is alive." A timed-out conditional (CAS)
// write is none of these: it is rethrown, never sent again (its outcome is unknown).
func vh_downgrading_decisions() {
	p := &DowngradingConsistencyRetryPolicy{ConsistencyLevelsToTry: []Consistency{Two, One}}
	n := int(vI32("replicas"))
	switch vChoose("error", 4) {
	case 0:
		rt := p.GetRetryType(&RequestErrUnavailable{Alive: n})
		if n > 0 {
			vAssert(rt == Retry, "C13/downgrading/unavailable-with-a-live-replica-is-retried")
		} else if n == 0 {
			vAssert(rt == Rethrow, "C13/downgrading/unavailable-without-live-replicas-is-rethrown")
		}
	case 1:
		vAssert(p.GetRetryType(&RequestErrReadTimeout{Received: n}) == Retry, "C13/downgrading/read-timeout-is-retried")
	case 2:
		wt := []string{"SIMPLE", "BATCH", "COUNTER", "UNLOGGED_BATCH"}[vChoose("write_type", 4)]
		rt := p.GetRetryType(&RequestErrWriteTimeout{WriteType: wt, Received: n})
		if n > 0 && wt == "UNLOGGED_BATCH" {
			vAssert(rt == Retry, "C13/downgrading/acknowledged-unlogged-batch-timeout-is-retried")
		} else if n > 0 {
			vAssert(rt == Ignore, "C13/downgrading/acknowledged-write-timeout-is-ignored")
		}
		vAssert(rt != RetryNextHost, "C13/downgrading/a-timed-out-write-is-not-sent-to-another-host")
	default:
		rt := p.GetRetryType(&RequestErrWriteTimeout{WriteType: "CAS", Received: n})
		vAssert(rt == Rethrow, "C13/downgrading/a-timed-out-conditional-write-is-rethrown")
	}
}
