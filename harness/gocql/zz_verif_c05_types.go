package gocql

// ---- C05: type descriptions read from schema tables ----
//
// system.schema_columns (validator / comparator strings, Cassandra < 3) goes through parseType, and
// system_schema.* type names (Cassandra >= 3) through getCassandraType. Both strings come from the
// server. The input is a concrete well-formed beginning (chosen from the class names the parser
// interprets) followed by an arbitrary tail of 0..T bytes; no runtime panic may be reachable.

var vTypePrefixes = []string{
	"",
	"a(",
	"a(b:",
	"a(b,",
	REVERSED_TYPE,
	REVERSED_TYPE + "(",
	COMPOSITE_TYPE,
	COMPOSITE_TYPE + "(",
	COMPOSITE_TYPE + "(a,",
	COMPOSITE_TYPE + "(a," + COLLECTION_TYPE,
	COMPOSITE_TYPE + "(a," + COLLECTION_TYPE + "(",
	COMPOSITE_TYPE + "(a," + COLLECTION_TYPE + "(6162:",
	COMPOSITE_TYPE + "(" + REVERSED_TYPE,
	LIST_TYPE,
	LIST_TYPE + "(",
	SET_TYPE + "(a",
	MAP_TYPE + "(",
	MAP_TYPE + "(a",
	MAP_TYPE + "(a,",
	LIST_TYPE + "(" + MAP_TYPE + "(a",
}

func vh_type_parser() {
	pre := vTypePrefixes[vBound("prefix")]
	tail := vString("tail", vBound("T"))
	res := parseType(pre+tail, vNopLogger{})
	vAssert(len(res.types) == len(res.reversed) && len(res.types) >= 1 || res.isComposite, "C05/typeparser/result-well-formed")
	for _, t := range res.types {
		vAssert(t != nil, "C05/typeparser/no-nil-type")
	}
	vObserve("n", len(res.types))
}

var vCQLTypePrefixes = []string{
	"",
	"frozen<",
	"set<",
	"list<",
	"map<",
	"map<a",
	"map<a,",
	"map<a, ",
	"tuple<",
	"tuple<a, ",
	"frozen<map<",
	"list<frozen<tuple<",
}

func vh_cql_type_name() {
	pre := vCQLTypePrefixes[vBound("prefix")]
	tail := vString("tail", vBound("T"))
	for i := 0; i < len(tail); i++ {
		vAssume(tail[i] < 0x80) // splitCompositeTypes ranges over runes; multi-byte sequences are outside the bound
	}
	ti := getCassandraType(pre+tail, vNopLogger{})
	vAssert(ti != nil, "C05/cqltype/no-nil-type")
	vObserve("t", int(ti.Type()))
}
