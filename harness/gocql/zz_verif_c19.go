package gocql

import "time"

// ---- C19: UUIDs ----

func vUUID(name string) UUID {
	var u UUID
	b := vBytesN(name, 16)
	copy(u[:], b)
	return u
}

func refHexVal(c byte) (byte, bool) {
	switch {
	case c >= '0' && c <= '9':
		return c - '0', true
	case c >= 'a' && c <= 'f':
		return c - 'a' + 10, true
	case c >= 'A' && c <= 'F':
		return c - 'A' + 10, true
	}
	return 0, false
}

// String() is the canonical 8-4-4-4-12 lower-case form of the 16 bytes, for every UUID.
func vh_uuid_string_format() {
	u := vUUID("u")
	s := u.String()
	vAssert(len(s) == 36, "C19/string/len")
	ok := s[8] == '-' && s[13] == '-' && s[18] == '-' && s[23] == '-'
	vAssert(ok, "C19/string/hyphens")
	const hex = "0123456789abcdef"
	pos := 0
	good := true
	for i := 0; i < 16; i++ {
		if pos == 8 || pos == 13 || pos == 18 || pos == 23 {
			pos++
		}
		hi, lo := s[pos], s[pos+1]
		pos += 2
		// compare through a table lookup of the reference, not the implementation's
		good = vAnd(good, vAnd(hi == hex[u[i]>>4], lo == hex[u[i]&15]))
	}
	vAssert(good, "C19/string/digits")
	vObserve("s", s)
}

// ParseUUID(u.String()) == u. Bytes "lo".."lo+n-1" of u are symbolic (all 256 values each), the rest
// are fixed; the instances of the spec slide the window over all 16 positions.
func vh_uuid_print_parse() {
	lo, n := vBound("lo"), vBound("n")
	var u UUID
	for i := range u {
		u[i] = byte(0x1f + 13*i)
	}
	b := vBytesN("b", n)
	for i := 0; i < n; i++ {
		u[lo+i] = b[i]
	}
	back, err := ParseUUID(u.String())
	vAssert(err == nil && back == u, "C19/print-parse")
	vObserve("ok", err == nil)
}

// ParseUUID acceptance: an otherwise canonical string with k arbitrary characters at positions
// p0.. (any byte values 0..127): success implies the string is exactly 32 hex digits plus
// hyphens, and the value is the digits in order.
func vh_uuid_parse_accept() {
	base := []byte("01234567-89ab-cdef-0123-456789abcdef")
	if vBound("form") == 1 {
		base = []byte("0123456789abcdef0123456789ABCDEF")
	}
	if vBound("form") == 2 {
		base = []byte("0123456789abcdef0123456789abcde") // 31 digits
	}
	if vBound("form") == 3 {
		base = []byte("0123456789abcdef0123456789abcdef0") // 33 digits
	}
	k := vBound("k")
	p0 := vBound("p0")
	step := vBound("step")
	for i := 0; i < k; i++ {
		p := p0 + i*step
		if p < len(base) {
			c := vU8("c")
			vAssume(c < 0x80) // ASCII; multi-byte runes are rejected by the default arm as well (outside the bound)
			base[p] = c
		}
	}
	s := string(base)
	got, err := ParseUUID(s)
	// reference: fold the digits
	var want UUID
	nd := 0
	valid := true
	for i := 0; i < len(s); i++ {
		c := s[i]
		if c == '-' {
			continue
		}
		v, ok := refHexVal(c)
		if !ok {
			valid = false
			break
		}
		if nd < 32 {
			if nd&1 == 0 {
				want[nd/2] |= v << 4
			} else {
				want[nd/2] |= v
			}
		}
		nd++
	}
	valid = valid && nd == 32
	if err == nil {
		vAssert(valid, "C19/parse/accepts-only-32-hex-plus-hyphens")
		vAssert(!valid || got == want, "C19/parse/value")
	}
	vObserve("accepted", err == nil)
}

const vTicksPerSec = 10000000

// UUIDFromTime: version 1, IETF variant, and Time() returns the instant truncated to 100ns.
func vh_uuid_from_time() {
	sec := vI64("sec")
	nsec := vI64("nsec")
	// 1582-10-15 .. year 5236: the 60-bit timestamp range
	vAssume(sec >= timeBase && sec < timeBase+(1<<60)/vTicksPerSec-1 && nsec >= 0 && nsec < 1000000000)
	hardwareAddr = vBytesN("node", 6)
	clockSeq = vU32("clock")
	t := time.Unix(sec, nsec)
	u := UUIDFromTime(t)
	vAssert(u.Version() == 1, "C19/fromtime/version1")
	vAssert(u.Variant() == VariantIETF, "C19/fromtime/variant")
	back := u.Time()
	vAssert(back.Unix() == sec && int64(back.Nanosecond()) == nsec/100*100, "C19/fromtime/time-roundtrip")
	vAssert(u.Timestamp() == (sec-timeBase)*vTicksPerSec+nsec/100, "C19/fromtime/timestamp")
	vObserve("ts", u.Timestamp())
}

// TimeUUIDWith / Timestamp / Clock / Node are inverse on the 60/14/48-bit fields.
func vh_uuid_with_fields() {
	ts := vI64("ts")
	clock := vU32("clock")
	node := vBytesN("node", 6)
	u := TimeUUIDWith(ts, clock, node)
	vAssert(u.Version() == 1 && u.Variant() == VariantIETF, "C19/with/version-variant")
	vAssert(u.Timestamp() == ts&(1<<60-1), "C19/with/timestamp")
	vAssert(u.Clock() == clock&0x3fff, "C19/with/clock")
	nd := u.Node()
	same := len(nd) == 6
	for i := 0; i < 6 && same; i++ {
		same = nd[i] == node[i]
	}
	vAssert(same, "C19/with/node")
	vObserve("u", u[:])
}

// RandomUUID: version 4 and IETF variant whatever the random source returns.
func vh_uuid_random() {
	u, err := RandomUUID()
	vAssert(err == nil && u.Version() == 4 && u.Variant() == VariantIETF, "C19/random/version4")
	vObserve("v", u.Version())
}

// refTimeUUIDCmp: Cassandra's TimeUUIDType: timestamp first, then bytes 8..15 as signed bytes.
func refTimeUUIDCmp(a, b UUID) int {
	ta, tb := refUUIDTimestamp(a), refUUIDTimestamp(b)
	if ta < tb {
		return -1
	}
	if ta > tb {
		return 1
	}
	for i := 8; i < 16; i++ {
		x, y := int8(a[i]), int8(b[i])
		if x < y {
			return -1
		}
		if x > y {
			return 1
		}
	}
	return 0
}

func refUUIDTimestamp(u UUID) uint64 {
	low := uint64(u[0])<<24 | uint64(u[1])<<16 | uint64(u[2])<<8 | uint64(u[3])
	mid := uint64(u[4])<<8 | uint64(u[5])
	hi := uint64(u[6]&0x0f)<<8 | uint64(u[7])
	return hi<<48 | mid<<32 | low
}

// Min/MaxTimeUUID bound every RFC 4122 version-1 UUID of the same instant.
func vh_uuid_minmax() {
	sec := vI64("sec")
	nsec := vI64("nsec")
	vAssume(sec >= timeBase && sec < timeBase+(1<<60)/vTicksPerSec-1 && nsec >= 0 && nsec < 1000000000)
	t := time.Unix(sec, nsec)
	x := TimeUUIDWith(getTimestamp(t), vU32("clock"), vBytesN("node", 6))
	// any version-1 IETF UUID with that timestamp has this shape; assert the shape rather than trust it
	vAssert(x.Version() == 1 && x.Variant() == VariantIETF, "C19/minmax/shape")
	mn, mx := MinTimeUUID(t), MaxTimeUUID(t)
	vAssert(refTimeUUIDCmp(mn, x) <= 0, "C19/minmax/min-is-lower-bound")
	vAssert(refTimeUUIDCmp(x, mx) <= 0, "C19/minmax/max-is-upper-bound")
	vObserve("mn", mn[:])
}

// Two generations whose clock-sequence counters differ by 1 <= d < 2^14 yield different UUIDs,
// for any two instants (the atomic add gives distinct calls distinct counter values).
// vAddResults: what successive atomic.AddUint32 calls return. Distinct calls of an atomic add observe
// distinct counter values (here: they differ by d, 1 <= d < 2^14, i.e. fewer than 2^14 generations in between);
// that is the only thing the environment promises - the generator must get its uniqueness from it.
var vAddResults []uint32

func vstubAddU32(addr *uint32, delta uint32) uint32 {
	if len(vAddResults) == 0 {
		return vU32("further_add")
	}
	r := vAddResults[0]
	vAddResults = vAddResults[1:]
	return r
}

func vh_uuid_unique() {
	s1, n1, s2, n2 := vI64("s1"), vI64("n1"), vI64("s2"), vI64("n2")
	lim := timeBase + (1<<60)/vTicksPerSec - 1
	vAssume(s1 >= timeBase && s1 < lim && n1 >= 0 && n1 < 1000000000)
	vAssume(s2 >= timeBase && s2 < lim && n2 >= 0 && n2 < 1000000000)
	hardwareAddr = vBytesN("node", 6)
	c0 := vU32("c0")
	d := vU32("d")
	vAssume(d >= 1 && d < 1<<14)
	clockSeq = vU32("counter_as_other_generators_left_it")
	vAddResults = []uint32{c0, c0 + d}
	a := UUIDFromTime(time.Unix(s1, n1))
	b := UUIDFromTime(time.Unix(s2, n2))
	vAssert(a != b, "C19/unique/distinct")
	vObserve("a9", a[9])
}
