package gocql

import "context"

// ---- C15: paged iteration yields every row exactly once, in order, and then stops ----

type vPage struct {
	rows   [][]byte // one int column per row (4 bytes each)
	state  []byte   // paging state carried by this page (non-empty iff more pages follow)
	failed bool
}

// vPageReq: what the scripted server saw of one page request (QUERY or EXECUTE)
type vPageReq struct {
	statement  string
	preparedID []byte
	params     queryParams
}

var (
	vPages       []vPage
	vPageReqs    []vPageReq
	vPrepares    int
	vPreparedID  = []byte{0x50, 0x31}
	vSkippedMeta int
)

// vstubPagedExec: the scripted server of a paged query. PREPARE is answered with an id and the result
// metadata (one int column "a"); a page request whose skip-metadata flag is set is answered WITHOUT
// column metadata (flag no_metadata), as a real server does.
func vstubPagedExec(c *Conn, ctx context.Context, req frameBuilder, tracer Tracer) (*framer, error) {
	cols := []vCol{{ks: "ks", tbl: "t", name: "a", t: vType{id: uint16(TypeInt)}}}
	var pr vPageReq
	switch q := req.(type) {
	case *writePrepareFrame:
		vPrepares++
		e := &vEnc{}
		e.i32(4)
		e.shortBytes(vPreparedID)
		e.meta(vMeta{}, true, c.version, nil)
		if c.version >= 2 {
			e.meta(vMeta{ncols: 1, cols: cols}, false, c.version, nil)
		}
		return vFramerWith(c, opResult, e.b), nil
	case *writeQueryFrame:
		pr = vPageReq{statement: q.statement, params: q.params}
	case *writeExecuteFrame:
		pr = vPageReq{preparedID: q.preparedID, params: q.params}
	default:
		return nil, vErrIO
	}
	if ctx != nil && ctx.Err() != nil {
		return nil, ctx.Err() // Conn.exec refuses a request whose context has ended
	}
	vPageReqs = append(vPageReqs, pr)
	i := len(vPageReqs) - 1
	if i >= len(vPages) {
		return nil, vErrIO // a request after the last page: answered with an error so it is visible
	}
	p := vPages[i]
	if p.failed {
		return nil, vErrIO
	}
	e := &vEnc{}
	e.i32(2)
	m := vMeta{ncols: 1, cols: cols}
	if len(p.state) > 0 {
		m.flags |= 2
		m.paging = p.state
	}
	if pr.params.skipMeta {
		m.flags |= 4
		vSkippedMeta++
	}
	e.meta(m, false, c.version, nil)
	e.i32(int32(len(p.rows)))
	for _, r := range p.rows {
		e.bytes(r, false)
	}
	return vFramerWith(c, opResult, e.b), nil
}

// vPagedQuery: the query under test, unprepared (QUERY frames) or prepared (PREPARE once, EXECUTE per page,
// metadata skipped unless disabled)
func vPagedQuery(c *Conn) *Query {
	q := &Query{stmt: "SELECT a FROM t", cons: Consistency(vU16("cons")), pageSize: int(vU16("page_size")),
		skipPrepare: true, conn: c, session: c.session, routingInfo: &queryRoutingInfo{}, context: context.Background()}
	if vBound("prepared") == 1 {
		q.skipPrepare = false
		q.disableSkipMetadata = vBool("disable_skip_metadata")
	}
	vPages, vPageReqs, vPrepares, vSkippedMeta = nil, nil, 0, 0
	return q
}

// executor=1: every page (the first one included) is requested through the session's query executor, as
// Session.Query(...).Iter() does, with a retry policy that answers Ignore ("stop retrying, hand the result
// to the caller") for the failed fetch: the failure must still be the iteration's error.
type vIgnorePolicy struct{}

func (vIgnorePolicy) Attempt(q RetryableQuery) bool        { return true }
func (vIgnorePolicy) GetRetryType(err error) RetryType { return Ignore }

var vPagingConn *Conn

func vstubPoolPickPagingConn(pool *hostConnPool) *Conn { return vPagingConn }

func vFirstPage(c *Conn, q *Query) *Iter {
	if vBound("executor") != 1 {
		if vBool("first_page_ran_as_a_speculative_attempt") {
			// queryExecutor.executeQuery runs each attempt under its own context and cancels it as soon as it
			// has a result (defer cancel()): later pages belong to the caller's context, not to that one
			attempt := &vCtx{done: make(chan struct{})}
			it := c.executeQuery(attempt, q)
			close(attempt.done)
			attempt.err = context.Canceled
			return it
		}
		return c.executeQuery(q.context, q)
	}
	h := &HostInfo{hostId: "a", connectAddress: vAddrs[0], state: NodeUp}
	c.host = &HostInfo{hostId: "00000000-0000-0000-0000-000000000001", connectAddress: vAddrs[0], state: NodeUp}
	vPagingConn = c
	q.conn = nil
	q.rt = vIgnorePolicy{}
	q.spec = &NonSpeculativeExecution{}
	q.metrics = &queryMetrics{m: map[string]*hostMetrics{}}
	c.session.executor = &queryExecutor{pool: &policyConnPool{}, policy: &vOneHostPolicy{h: h}}
	return c.session.executeQuery(q)
}

func vCheckPageRequests(q *Query) {
	same := true
	for i, r := range vPageReqs {
		if i == 0 {
			same = same && len(r.params.pagingState) == 0
		} else {
			same = same && refBytesEq(r.params.pagingState, vPages[i-1].state)
		}
		same = same && r.params.consistency == q.cons && r.params.pageSize == q.pageSize
		if q.skipPrepare {
			same = same && r.statement == q.stmt && r.preparedID == nil
		} else {
			same = same && refBytesEq(r.preparedID, vPreparedID) && r.params.skipMeta == !q.disableSkipMetadata
		}
	}
	vAssert(same, "C15/paging/next-page-requested-with-the-previous-pages-state")
	if !q.skipPrepare && len(vPageReqs) > 0 {
		vAssert(vPrepares == 1, "C15/paging/prepared-once-for-all-pages")
	}
}

func vh_paging() {
	c := vConnWithCache(2)
	np := vBound("pages")
	failAt := -1
	if vBool("a_fetch_fails") {
		failAt = vChoose("fail_at", np)
	}
	var all [][]byte
	q := vPagedQuery(c)
	for i := 0; i < np; i++ {
		var p vPage
		nr := vChoose("rows", vBound("max_rows")+1)
		for r := 0; r < nr; r++ {
			cell := vBytesN("cell", 4)
			p.rows = append(p.rows, cell)
			if failAt < 0 || i < failAt {
				all = append(all, cell)
			}
		}
		if i < np-1 {
			p.state = vBytesN("state", 2)
		}
		p.failed = i == failAt
		vPages = append(vPages, p)
	}
	q.prefetch = []float64{0, 0.25, 1}[vBound("prefetch")]
	iter := vFirstPage(c, q)
	var got []int32
	total := len(all)
	consumer := vBound("consumer") // 0 Scan, 1 Scanner, 2 MapScan, 3 SliceMap
	var sc Scanner
	var sliceErr error
	switch consumer {
	case 1:
		sc = iter.Scanner()
		for i := 0; i <= total && sc.Next(); i++ {
			var x int32
			if sc.Scan(&x) != nil {
				break
			}
			got = append(got, x)
		}
		vAssert(!sc.Next(), "C15/paging/stops-after-the-last-row")
	case 2:
		for i := 0; i <= total; i++ {
			m := map[string]interface{}{}
			if !iter.MapScan(m) {
				break
			}
			x, _ := m["a"].(int)
			got = append(got, int32(x))
		}
		vAssert(!iter.MapScan(map[string]interface{}{}), "C15/paging/stops-after-the-last-row")
	case 3:
		var rows []map[string]interface{}
		rows, sliceErr = iter.SliceMap()
		for _, m := range rows {
			x, _ := m["a"].(int)
			got = append(got, int32(x))
		}
	default:
		for i := 0; i <= total; i++ {
			var x int32
			if !iter.Scan(&x) {
				break
			}
			got = append(got, x)
		}
		var extra int32
		vAssert(!iter.Scan(&extra), "C15/paging/stops-after-the-last-row")
	}
	// every row of every page exactly once, in order
	ok := len(got) == total
	for i := 0; ok && i < total; i++ {
		want := int32(all[i][0])<<24 | int32(all[i][1])<<16 | int32(all[i][2])<<8 | int32(all[i][3])
		ok = got[i] == want
	}
	var cerr error
	switch consumer {
	case 1:
		cerr = sc.Err()
	case 3:
		cerr = sliceErr
		if cerr == nil {
			cerr = iter.Close()
		}
	default:
		cerr = iter.Close()
	}
	if failAt >= 0 && consumer == 3 {
		// SliceMap reports the error instead of rows; the rows before the failed page are not returned
		ok = true
	}
	vAssert(ok, "C15/paging/every-row-once-in-order")
	if failAt >= 0 {
		vAssert(cerr != nil, "C15/paging/failed-fetch-is-the-iterations-error")
		vAssert(len(vPageReqs) == failAt+1, "C15/paging/no-request-after-a-failed-fetch")
	} else {
		vAssert(cerr == nil, "C15/paging/normal-end-has-no-error")
		vAssert(len(vPageReqs) == np, "C15/paging/no-page-requested-after-the-last")
	}
	// request i+1 carries exactly page i's paging state and otherwise the same request
	vCheckPageRequests(q)
	vObserve("rows", len(got))
}

// caller-supplied page state: exactly one page, and the next state is exposed
func vh_manual_paging() {
	c := vConnWithCache(2)
	st := vBytesN("state", 2)
	cell := vBytesN("cell", 4)
	more := vBool("more_pages")
	p := vPage{rows: [][]byte{cell}}
	if more {
		p.state = vBytesN("next", 2)
	}
	q := vPagedQuery(c)
	vPages = []vPage{p, {}}
	q.PageState(st)
	iter := vFirstPage(c, q)
	var x, y int32
	vAssert(iter.Scan(&x) && !iter.Scan(&y), "C15/manual/exactly-one-page-of-rows")
	vAssert(len(vPageReqs) == 1 && refBytesEq(vPageReqs[0].params.pagingState, st), "C15/manual/one-request-with-the-callers-state")
	vAssert(refBytesEq(iter.PageState(), p.state) && (len(iter.PageState()) > 0) == more, "C15/manual/next-state-exposed")
	want := int32(cell[0])<<24 | int32(cell[1])<<16 | int32(cell[2])<<8 | int32(cell[3])
	vAssert(x == want && len(iter.Columns()) == 1 && iter.Columns()[0].Name == "a", "C15/manual/the-row-and-its-column-as-the-server-sent-them")
	// C04: the driver's view of this RESULT/Rows frame - paging state from the frame, columns from the frame or
	// (metadata skipped) from the PREPARE answer, the cell through Scan - equals what the server encoded
	vAssert(refBytesEq(iter.PageState(), p.state), "C04/rows/paging-state-also-when-metadata-is-skipped")
	vAssert(x == want && len(iter.Columns()) == 1 && iter.Columns()[0].Name == "a" && iter.Columns()[0].TypeInfo.Type() == TypeInt, "C04/rows/columns-and-cell-also-when-metadata-is-skipped")
	vAssert(iter.Close() == nil, "C15/manual/no-error")
	vObserve("x", x)
}
