package gocql

// Reference encoders written from the CQL native protocol specification
// (section 6, "Data type serialization formats"). Independent of marshal.go.

// refBE: n-byte big-endian two's complement of v.
func refBE(v int64, n int) []byte {
	b := make([]byte, n)
	for i := 0; i < n; i++ {
		b[i] = byte(v >> (8 * uint(n-1-i)))
	}
	return b
}

// refFits: v is representable in n bytes two's complement (n in 1..8).
func refFits(v int64, n int) bool {
	if n >= 8 {
		return true
	}
	sh := uint(64 - 8*n)
	return (v<<sh)>>sh == v
}

// refVarintLen: minimal number of bytes of the two's complement form of v.
func refVarintLen(v int64) int {
	for k := 1; k < 8; k++ {
		if refFits(v, k) {
			return k
		}
	}
	return 8
}

// refVarint: spec "varint": minimal-length big-endian two's complement.
func refVarint(v int64) []byte { return refBE(v, refVarintLen(v)) }

// refVarintU: varint of a non-negative value given as uint64 (9 bytes when bit 63 is set).
func refVarintU(v uint64) []byte {
	if v>>63 == 0 {
		return refVarint(int64(v))
	}
	return append([]byte{0}, refBE(int64(v), 8)...)
}

func refBytesEq(a, b []byte) bool {
	if len(a) != len(b) {
		return false
	}
	for i := range a {
		if a[i] != b[i] {
			return false
		}
	}
	return true
}

// refBytesSame: like refBytesEq but branch-free over the bytes (one symbolic conjunction instead of a
// fork per byte): cheaper when many short symbolic fields are concatenated (collections), more
// expensive when each byte hides heavy arithmetic (dates, vints), where refBytesEq is used.
func refBytesSame(a, b []byte) bool {
	if len(a) != len(b) {
		return false
	}
	eq := true
	for i := range a {
		eq = vAnd(eq, a[i] == b[i])
	}
	return eq
}

// refFloorDiv: mathematical floor(a/b) for b > 0.
func refFloorDiv(a, b int64) int64 {
	q := a / b
	if a%b != 0 && a < 0 {
		q--
	}
	return q
}

// refVint: spec "vint" = zig-zag, then a unary length prefix (k leading one bits => k more bytes).
func refVint(v int64) []byte {
	u := uint64(v<<1) ^ uint64(v>>63)
	k := 8
	for j := 0; j < 8; j++ {
		if u>>(7*uint(j+1)) == 0 {
			k = j
			break
		}
	}
	out := make([]byte, k+1)
	for i := k; i >= 1; i-- {
		out[i] = byte(u)
		u >>= 8
	}
	if k < 8 {
		out[0] = byte(u) | ^byte(0xff>>uint(k))
	} else {
		out[0] = 0xff
	}
	return out
}

func refCat(parts ...[]byte) []byte {
	var out []byte
	for _, p := range parts {
		out = append(out, p...)
	}
	return out
}
