package gocql

// Reference encoders written from the CQL native protocol specification
// (section 6, "Data type serialization formats"). Independent of marshal.go.

// refBE: n-byte big-endian two's complement of v.
func refBE(v int64, n int) []byte {
	b := make([]byte, n)
	for i := 0; i < n; i++ {
		b[i] = byte(v >> (8 * uint(n-1-i)))
	}
	return b
}

// refFits: v is representable in n bytes two's complement (n in 1..8).
func refFits(v int64, n int) bool {
	if n >= 8 {
		return true
	}
	sh := uint(64 - 8*n)
	return (v<<sh)>>sh == v
}

// refVarintLen: minimal number of bytes of the two's complement form of v.
func refVarintLen(v int64) int {
	for k := 1; k < 8; k++ {
		if refFits(v, k) {
			return k
		}
	}
	return 8
}

// refVarint: spec "varint": minimal-length big-endian two's complement.
func refVarint(v int64) []byte { return refBE(v, refVarintLen(v)) }

// refVarintU: varint of a non-negative value given as uint64 (9 bytes when bit 63 is set).
func refVarintU(v uint64) []byte {
	if v>>63 == 0 {
		return refVarint(int64(v))
	}
	return append([]byte{0}, refBE(int64(v), 8)...)
}

func refBytesEq(a, b []byte) bool {
	if len(a) != len(b) {
		return false
	}
	for i := range a {
		if a[i] != b[i] {
			return false
		}
	}
	return true
}
