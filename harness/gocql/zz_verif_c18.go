package gocql

import (
	"context"
	"errors"
	"io"
)

// ---- C18: compression is transparent and only used as negotiated ----

// vComp: a concrete invertible code: Encode(b) = 0xC5 | b ; Decode(0xC5 | b) = b ; else error.
type vComp struct{ name string }

var vErrCorrupt = errors.New("verif: corrupt compressed body")

func (c vComp) Name() string { return c.name }
func (c vComp) Encode(data []byte) ([]byte, error) {
	return append([]byte{0xC5}, data...), nil
}
func (c vComp) Decode(data []byte) ([]byte, error) {
	if len(data) < 1 || data[0] != 0xC5 {
		return nil, vErrCorrupt
	}
	return data[1:], nil
}

func vBuildWith(comp Compressor, fb frameBuilder, ver byte, stream int) ([]byte, bool) {
	f := newFramer(comp, ver)
	if err := fb.buildFrame(f, stream); err != nil {
		return nil, false
	}
	return f.buf, true
}

func vReqKind(kind int, ver byte) frameBuilder {
	L := vBound("S")
	switch kind {
	case 0:
		return &writeStartupFrame{opts: map[string]string{"CQL_VERSION": vStringN("v", L)}}
	case 1:
		return &writeOptionsFrame{}
	case 2:
		return &writeAuthResponseFrame{data: vBytesN("tok", L)}
	case 3:
		return &writeRegisterFrame{events: []string{vStringN("ev", L)}}
	case 4:
		return &writeQueryFrame{statement: vStringN("stmt", L), params: queryParams{consistency: Consistency(vU16("cons"))}}
	case 5:
		return &writePrepareFrame{statement: vStringN("stmt", L)}
	case 6:
		return &writeExecuteFrame{preparedID: vBytesN("id", 1), params: queryParams{consistency: Consistency(vU16("cons")), values: []queryValues{{value: vBytesN("val", L)}}}}
	}
	return &writeBatchFrame{typ: LoggedBatch, consistency: Consistency(vU16("cons")), statements: []batchStatment{{statement: vStringN("stmt", L)}}}
}

// request bodies are compressed exactly when the header says so; OPTIONS and STARTUP never are
func vh_compress_requests() {
	ver := byte(vBound("version"))
	kind := vBound("kind")
	vAssume(!(kind == 7 && ver < 2))
	stream := 5
	fb := vReqKind(kind, ver)
	plain, ok1 := vBuildWith(nil, fb, ver, stream)
	comp, ok2 := vBuildWith(vComp{"vc"}, fb, ver, stream)
	vAssert(ok1 && ok2, "C18/request/built")
	if !ok1 || !ok2 {
		return
	}
	hp, hc := vDecodeHeader(plain, ver), vDecodeHeader(comp, ver)
	vAssert(hp.ok && hc.ok && hp.flags&1 == 0, "C18/request/no-compressor-never-sets-flag")
	vAssert(hc.length == len(hc.body) && hp.length == len(hp.body), "C18/request/length-is-wire-body-length")
	if kind == 0 || kind == 1 {
		vAssert(hc.flags&1 == 0 && refBytesEq(hc.body, hp.body), "C18/request/options-and-startup-never-compressed")
	} else if hc.flags&1 == 1 {
		// what the peer decodes is byte-identical to the logical body
		dec, err := vComp{"vc"}.Decode(hc.body)
		vAssert(err == nil && refBytesEq(dec, hp.body), "C18/request/flag-set-iff-body-is-encode-of-logical-body")
	} else {
		vAssert(refBytesEq(hc.body, hp.body), "C18/request/flag-clear-iff-body-is-plain")
	}
	vAssert(hc.flags&^1 == hp.flags && hc.op == hp.op && hc.stream == hp.stream && hc.version == hp.version, "C18/request/rest-of-header-unchanged")
	vObserve("flag", hc.flags&1)
}

type vReader struct {
	data []byte
	pos  int
}

func (r *vReader) Read(p []byte) (int, error) {
	if r.pos >= len(r.data) {
		return 0, io.EOF
	}
	n := copy(p, r.data[r.pos:])
	r.pos += n
	return n, nil
}

// responses: compressed flag with no compressor is an error, corrupt body is an error,
// otherwise the framer holds exactly the decoded body
func vh_compress_response() {
	ver := byte(vBound("version"))
	body := vBytes("body", vBound("L"))
	_ = vConcrete(len(body))
	flags := vU8("flags")
	withComp := vBool("with_compressor")
	var comp Compressor
	if withComp {
		comp = vComp{"vc"}
	}
	f := newFramer(comp, ver)
	head := &frameHeader{version: protoVersion(ver | 0x80), flags: flags, op: opResult, length: len(body)}
	err := f.readFrame(&vReader{data: body}, head)
	if flags&1 == 1 {
		if !withComp {
			vAssert(err != nil, "C18/response/compressed-without-compressor-is-an-error")
		} else if len(body) < 1 || body[0] != 0xC5 {
			vAssert(err != nil, "C18/response/corrupt-body-is-an-error")
		} else {
			vAssert(err == nil && refBytesEq(f.buf, body[1:]), "C18/response/decoded-body-identical")
		}
	} else {
		vAssert(err == nil && refBytesEq(f.buf, body), "C18/response/plain-body-untouched")
	}
	vObserve("err", err != nil)
}

// the compressor is used only if the server advertised it
func vh_compress_negotiation() {
	name := vStringN("name", 2)
	conn := &Conn{cfg: &ConnConfig{CQLVersion: "3.0.0"}, compressor: vComp{name}}
	s := &startupCoordinator{conn: conn}
	n := vChoose("advertised", 3)
	var list []string
	for i := 0; i < n; i++ {
		list = append(list, vString("adv", 2))
	}
	supported := map[string][]string{}
	if vBool("has_compression_key") {
		supported["COMPRESSION"] = list
	} else {
		list = nil
	}
	vWrites = nil
	vScript, vScriptErr = []frame{&readyFrame{}}, []error{nil}
	err := s.startup(context.Background(), supported)
	advertised := false
	for _, a := range list {
		advertised = vOr(advertised, a == name)
	}
	vAssert(err == nil && len(vWrites) == 1, "C18/negotiation/startup-sent")
	if len(vWrites) == 1 {
		st, ok := vWrites[0].(*writeStartupFrame)
		vAssert(ok, "C18/negotiation/startup-frame")
		if ok {
			got, has := st.opts["COMPRESSION"]
			vAssert(has == advertised && (!has || got == name), "C18/negotiation/compression-option-iff-advertised")
		}
	}
	vAssert((conn.compressor != nil) == advertised, "C18/negotiation/compressor-dropped-unless-advertised")
	// C03: every later request frame of this connection is built with conn.compressor (Conn.exec): requests are
	// only expressible in the negotiated version/options if that is exactly what STARTUP announced
	if len(vWrites) == 1 {
		if st, ok := vWrites[0].(*writeStartupFrame); ok {
			_, announced := st.opts["COMPRESSION"]
			vAssert((conn.compressor != nil) == announced, "C03/negotiation/requests-are-compressed-only-if-startup-announced-it")
		}
	}
	vObserve("adv", advertised)
}

// ---- framer.finish for a body of ANY length: the header describes exactly the bytes that follow ----
//
// The body content is never read (the compressor is a contract stub: any output of any length), its
// length is symbolic up to 1 MiB. Whatever finish decides (compress or not, per-frame flag), the
// finished buffer is self-delimiting: length field = bytes after the header, and the compression flag
// in the header says whether those bytes are the compressor's output.
type vLenComp struct{}

var vLenCompCalls, vLenCompOut int

func (vLenComp) Name() string { return "vlen" }
func (vLenComp) Encode(data []byte) ([]byte, error) {
	vLenCompCalls++
	n := vInt("compressed_len")
	vAssume(n >= 0 && n <= 1<<20)
	vLenCompOut = n
	return vSliceOfLen(n), nil
}
func (vLenComp) Decode(data []byte) ([]byte, error) { return data, nil }

func vh_finish_sizes() {
	ver := byte(vBound("version"))
	n := vInt("body_len")
	vAssume(n >= 0 && n <= 1<<20)
	var comp Compressor
	if vBool("compressor_negotiated") {
		comp = vLenComp{}
	}
	vLenCompCalls, vLenCompOut = 0, 0
	f := newFramer(comp, ver)
	f.writeHeader(f.flags, opQuery, 5)
	hs := len(f.buf)
	f.buf = append(f.buf, vSliceOfLen(n)...)
	err := f.finish()
	vAssert(err == nil, "C18/finish/no-error-below-the-frame-size-limit")
	if err != nil {
		return
	}
	body := len(f.buf) - hs
	var announced int
	if ver < 3 {
		announced = int(f.buf[4])<<24 | int(f.buf[5])<<16 | int(f.buf[6])<<8 | int(f.buf[7])
	} else {
		announced = int(f.buf[5])<<24 | int(f.buf[6])<<16 | int(f.buf[7])<<8 | int(f.buf[8])
	}
	vAssert(announced == body, "C07/finish/header-length-is-the-bytes-that-follow")
	if f.buf[1]&flagCompress != 0 {
		vAssert(comp != nil && vLenCompCalls == 1 && body == vLenCompOut, "C18/finish/flagged-body-is-the-compressors-output")
	} else {
		vAssert(vLenCompCalls == 0 && body == n, "C18/finish/unflagged-body-is-the-plain-body")
	}
	vObserve("body", body >= 0)
}

// ---- the snappy wrapper: a decoded body belongs to the caller ----
//
// The block codec is a contract stub (snappy.Decode(dst, src): the decoded bytes, written into dst when
// they fit, a fresh buffer otherwise - as documented). framer.readFrame keeps the slice Decode returned
// as the frame's body and parses it later, while other frames are decoded on the same or another
// connection: a later Decode must not change an earlier result. sync.Pool may hand back anything that
// was put (engine model).
func vstubSnappyDecode(dst, src []byte) ([]byte, error) {
	if vBool("block_is_corrupt") {
		return nil, vErrIO
	}
	n := vChoose("decoded_len", 3)
	if n <= len(dst) {
		dst = dst[:n]
	} else {
		dst = make([]byte, n)
	}
	for i := range dst {
		dst[i] = vU8("decoded_byte")
	}
	return dst, nil
}

func vh_snappy_decode_twice() {
	c := SnappyCompressor{}
	first, e1 := c.Decode([]byte{1})
	var snap []byte
	snap = append(snap, first...)
	second, e2 := c.Decode([]byte{2})
	if e1 == nil {
		vAssert(refBytesSame(first, snap), "C18/snappy/a-decoded-body-is-not-changed-by-a-later-decode")
	}
	vObserve("ok", e1 == nil && e2 == nil && len(second) >= 0)
}
