package murmur

// C09: Murmur3H1 equals Cassandra's MurmurHash.hash3_x64_128 (first long), transliterated below
// from the Java source: signed bytes in the tail, long arithmetic, little-endian block loads.

func refRotl64(v int64, n uint) int64 { return int64(uint64(v)<<n | uint64(v)>>(64-n)) }

func refGetLong(key []byte, index int) int64 {
	// Java getBlock: ((long) key[i] & 0xff) + (((long) key[i+1] & 0xff) << 8) + ...
	var r int64
	for j := 0; j < 8; j++ {
		r += (int64(key[index+j]) & 0xff) << (8 * uint(j))
	}
	return r
}

func refFmix(k int64) int64 {
	k ^= int64(uint64(k) >> 33)
	k *= -0xae502812aa7333 // 0xff51afd7ed558ccd
	k ^= int64(uint64(k) >> 33)
	k *= -0x3b314601e57a13ad // 0xc4ceb9fe1a85ec53
	k ^= int64(uint64(k) >> 33)
	return k
}

func refMurmur3(key []byte) int64 {
	const rc1 = int64(-0x783c846eeebdac2b) // 0x87c37b91114253d5
	const rc2 = int64(0x4cf5ad432745937f)
	length := len(key)
	nblocks := length >> 4
	var h1, h2 int64
	for i := 0; i < nblocks; i++ {
		k1 := refGetLong(key, i*16)
		k2 := refGetLong(key, i*16+8)
		k1 *= rc1
		k1 = refRotl64(k1, 31)
		k1 *= rc2
		h1 ^= k1
		h1 = refRotl64(h1, 27)
		h1 += h2
		h1 = h1*5 + 0x52dce729
		k2 *= rc2
		k2 = refRotl64(k2, 33)
		k2 *= rc1
		h2 ^= k2
		h2 = refRotl64(h2, 31)
		h2 += h1
		h2 = h2*5 + 0x38495ab5
	}
	off := nblocks * 16
	var k1, k2 int64
	rem := length & 15
	// Java: k2 ^= ((long) key[offset+14]) << 48 ...  (byte is signed: sign extension)
	for j := rem - 1; j >= 8; j-- {
		k2 ^= int64(int8(key[off+j])) << (8 * uint(j-8))
	}
	if rem > 8 {
		k2 *= rc2
		k2 = refRotl64(k2, 33)
		k2 *= rc1
		h2 ^= k2
	}
	top := rem
	if top > 8 {
		top = 8
	}
	for j := top - 1; j >= 0; j-- {
		k1 ^= int64(int8(key[off+j])) << (8 * uint(j))
	}
	if rem > 0 {
		k1 *= rc1
		k1 = refRotl64(k1, 31)
		k1 *= rc2
		h1 ^= k1
	}
	h1 ^= int64(length)
	h2 ^= int64(length)
	h1 += h2
	h2 += h1
	h1 = refFmix(h1)
	h2 = refFmix(h2)
	h1 += h2
	return h1
}

func vh_murmur() {
	n := vBound("len")
	key := vBytesN("k", n)
	got := Murmur3H1(key)
	vAssert(got == refMurmur3(key), "C09/murmur3/equals-cassandra")
	vObserve("h", got)
}
