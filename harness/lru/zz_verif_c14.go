package lru

// C14: the cache never exceeds its configured size, for every sequence of <= ops operations
// with symbolic keys.
func vh_lru_bound() {
	max := vBound("max")
	c := New(max)
	ops := vBound("ops")
	for i := 0; i < ops; i++ {
		k := vStringN("key", 1)
		switch vChoose("op", 3) {
		case 0:
			c.Add(k, i)
			v, ok := c.Get(k)
			vAssert(ok && v.(int) == i, "C14/lru/added-entry-is-found")
		case 1:
			c.Get(k)
		default:
			c.Remove(k)
			_, ok := c.Get(k)
			vAssert(!ok, "C14/lru/removed-entry-is-gone")
		}
		vAssert(c.Len() <= max, "C14/lru/never-exceeds-its-size")
		vAssert(c.Len() == len(c.cache), "C14/lru/list-and-index-agree")
	}
	vObserve("len", c.Len())
}
