package lz4

import (
	"errors"

	plz4 "github.com/pierrec/lz4/v4"
)

// ---- C18: Cassandra's length-prefixed lz4 block format (the wrapper around the block codec) ----
//
// The block codec itself (pierrec/lz4: amd64 assembly and hash-table loops) is replaced by stubs bound
// only by its documented contract: CompressBlock writes n <= len(dst) bytes into dst or fails,
// UncompressBlock writes n <= len(dst) bytes or fails. Decided here: the 4-byte big-endian length
// prefix, what is handed to / taken from the codec, and every error path of the wrapper.

var vErrCodec = errors.New("verif: block codec error")

var (
	vCompCalls, vUncCalls int
	vCompSrc, vCompDst    []byte
	vUncSrc, vUncDst      []byte
	vCompN, vUncN         int
	vCompFails, vUncFails bool
)

func vstubCompressBlock(c *plz4.Compressor, src, dst []byte) (int, error) {
	vCompCalls++
	vCompSrc, vCompDst = src, dst
	if vCompFails {
		return 0, vErrCodec
	}
	vAssume(vCompN >= 0 && vCompN <= len(dst))
	return vCompN, nil
}

func vstubUncompressBlock(src, dst []byte) (int, error) {
	vUncCalls++
	vUncSrc, vUncDst = src, dst
	if vUncFails {
		return 0, vErrCodec
	}
	vAssume(vUncN >= 0 && vUncN <= len(dst))
	return vUncN, nil
}

func vSameStart(a, b []byte) bool {
	if len(a) == 0 || len(b) == 0 {
		return len(a) == len(b)
	}
	return &a[0] == &b[0]
}

func vh_lz4_encode() {
	data := vBytes("data", vBound("L"))
	vCompCalls, vCompFails, vCompN = 0, vBool("codec_fails"), vInt("n")
	out, err := LZ4Compressor{}.Encode(data)
	vAssert(vCompCalls == 1, "C18/lz4/encode-compresses-once")
	vAssert(len(vCompSrc) == len(data) && vSameStart(vCompSrc, data), "C18/lz4/encode-compresses-the-whole-body")
	// the codec's precondition for "cannot fail": room for the worst case
	vAssert(len(vCompDst) >= plz4.CompressBlockBound(len(data)), "C18/lz4/encode-gives-the-codec-enough-room")
	if vCompFails {
		vAssert(err != nil && out == nil, "C18/lz4/codec-error-is-reported")
		return
	}
	vAssert(err == nil && len(out) == vCompN+4, "C18/lz4/encoded-is-prefix-plus-block")
	if err == nil && len(out) >= 4 {
		n := len(data)
		vAssert(out[0] == byte(n>>24) && out[1] == byte(n>>16) && out[2] == byte(n>>8) && out[3] == byte(n), "C18/lz4/prefix-is-big-endian-uncompressed-length")
		// the block follows the prefix directly: it is the very memory the codec wrote
		vAssert(len(out) == 4 || &out[4] == &vCompDst[0], "C18/lz4/block-follows-the-prefix")
	}
	vObserve("len", len(out))
}

func vh_lz4_decode() {
	data := vBytes("data", vBound("L"))
	vUncCalls, vUncFails, vUncN = 0, vBool("codec_fails"), vInt("n")
	out, err := LZ4Compressor{}.Decode(data)
	if len(data) < 4 {
		vAssert(err != nil && vUncCalls == 0, "C18/lz4/short-input-is-an-error")
		return
	}
	ulen := int(data[0])<<24 | int(data[1])<<16 | int(data[2])<<8 | int(data[3])
	if ulen == 0 {
		vAssert(err == nil && len(out) == 0 && vUncCalls == 0, "C18/lz4/zero-length-body-decodes-to-empty")
		return
	}
	vAssert(vUncCalls == 1, "C18/lz4/decode-decompresses-once")
	vAssert(len(vUncSrc) == len(data)-4 && (len(data) == 4 || &vUncSrc[0] == &data[4]), "C18/lz4/decode-hands-the-codec-exactly-the-block")
	vAssert(len(vUncDst) == ulen, "C18/lz4/decode-asks-for-exactly-the-announced-length")
	if vUncFails {
		vAssert(err != nil, "C18/lz4/corrupt-block-is-an-error")
		return
	}
	vAssert(err == nil && len(out) == vUncN && vSameStart(out, vUncDst[:vUncN]), "C18/lz4/decoded-is-what-the-codec-produced")
	vObserve("len", len(out))
}

// Encode then Decode: the decoder is handed exactly the block the encoder's codec call produced and asks
// for exactly len(body) bytes back - so the pair is transparent iff the block codec inverts (outside).
func vh_lz4_roundtrip() {
	data := vBytes("data", vBound("L"))
	vCompCalls, vCompFails, vCompN = 0, false, vInt("n")
	enc, err := LZ4Compressor{}.Encode(data)
	vAssume(err == nil)
	block := vCompDst[:vCompN]
	vUncCalls, vUncFails, vUncN = 0, false, len(data)
	out, derr := LZ4Compressor{}.Decode(enc)
	if len(data) == 0 {
		vAssert(derr == nil && len(out) == 0, "C18/lz4/empty-body-roundtrips")
		return
	}
	vAssert(vUncCalls == 1 && len(vUncSrc) == len(block) && vSameStart(vUncSrc, block), "C18/lz4/decoder-gets-the-encoders-block")
	vAssert(len(vUncDst) == len(data), "C18/lz4/decoder-expects-the-original-length")
	vAssert(derr == nil && len(out) == len(data), "C18/lz4/roundtrip-length")
	vObserve("len", len(enc))
}

// Encode for a body of ANY length up to 16 MiB (content irrelevant: the codec is the contract stub):
// the codec is always given room for the worst case, is called until it has produced the block, and
// the prefix announces the body's length.
func vh_lz4_encode_sizes() {
	n := vInt("len")
	vAssume(n >= 0 && n <= 1<<24)
	data := vSliceOfLen(n)
	vCompCalls, vCompFails, vCompN = 0, false, vInt("n")
	out, err := LZ4Compressor{}.Encode(data)
	vAssert(vCompCalls >= 1 && len(vCompSrc) == len(data), "C18/lz4/encode-compresses-the-whole-body")
	vAssert(len(vCompDst) >= plz4.CompressBlockBound(len(data)), "C18/lz4/encode-gives-the-codec-enough-room")
	vAssert(err == nil && len(out) == vCompN+4, "C18/lz4/encoded-is-prefix-plus-block")
	if err == nil && len(out) >= 4 {
		vAssert(out[0] == byte(n>>24) && out[1] == byte(n>>16) && out[2] == byte(n>>8) && out[3] == byte(n), "C18/lz4/prefix-is-big-endian-uncompressed-length")
	}
	vObserve("ok", err == nil)
}
