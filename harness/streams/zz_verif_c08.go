package streams

import "unsafe"

// ---- C08: rely/guarantee over the real GetStream / Clear ----
//
// The goroutine under analysis runs the real code; every atomic operation is answered by the
// environment below (spec stub table). Between two of its steps other goroutines may have done
// anything the guarantee allows them: set clear bits they do not own / clear bits they own.
// Rely on a load of word p: any value in which (a) the reserved bit of word 0 is set and
// (b) the bits this goroutine owns (vMine) are set.

type vCas struct {
	word     int
	old, new uint64
}

var (
	vGen        *IDGenerator
	vMine       []uint64
	vCasOK      []vCas
	vAdds       []int32
	vFailBudget int
	vFreeAssume bool
	vFreeWord   int
	vFreeMask   uint64
)

func vWord(addr *uint64) int {
	for i := range vGen.streams {
		if addr == &vGen.streams[i] {
			return i
		}
	}
	vAssert(false, "C08/atomic/only-touches-the-bitmap")
	return 0
}

func vEnvWord(p int) uint64 {
	v := vU64("w")
	if p == 0 {
		vAssume(v>>63 == 1)
	}
	vAssume(v&vMine[p] == vMine[p])
	if vFreeAssume && p == vFreeWord {
		vAssume(v&vFreeMask == 0)
	}
	return v
}

func vstubLoadUint64(addr *uint64) uint64 { return vEnvWord(vWord(addr)) }

func vstubCASUint64(addr *uint64, old, new uint64) bool {
	p := vWord(addr)
	cur := vEnvWord(p)
	if cur == old {
		vCasOK = append(vCasOK, vCas{p, old, new})
		return true
	}
	vFailBudget--
	vAssume(vFailBudget >= 0) // bounded number of lost races per call (lock-free, not wait-free)
	return false
}

// address tests go through unsafe.Pointer so that the harness keeps compiling if a field's integer type changes
func vIsOffset(p unsafe.Pointer) bool { return p == unsafe.Pointer(&vGen.offset) }

func vstubLoadUint32(addr *uint32) uint32 {
	vAssert(vIsOffset(unsafe.Pointer(addr)), "C08/atomic/offset-address")
	v := vU32("off")
	vAssume(v < vGen.numBuckets)
	return v
}

func vstubCASUint32(addr *uint32, old, new uint32) bool {
	vAssert(vIsOffset(unsafe.Pointer(addr)), "C08/atomic/offset-address")
	vAssert(new < vGen.numBuckets, "C08/offset/stays-below-numBuckets")
	if vBool("offcas") {
		return true
	}
	vFailBudget--
	vAssume(vFailBudget >= 0)
	return false
}

func vstubAddInt32(addr *int32, d int32) int32 {
	if vIsOffset(unsafe.Pointer(addr)) {
		// a cursor advanced by atomic add: every goroutine adds to it, for ever - any value can come back;
		// representatives: small, around the word count, and both ends of the integer range
		return []int32{0, 1, 2, 511, 512, 2147483647, -2147483648, -1}[vChoose("cursor_after", 8)]
	}
	vAssert(addr == &vGen.inuseStreams, "C08/atomic/counter-address")
	vAdds = append(vAdds, d)
	r := vI32("inuse_after")
	// counting invariant (DESIGN T2): inuse = |{ids incremented and not yet decremented}|; a
	// decrement follows the increment of the same id, so the result is never negative
	vAssume(r >= 0)
	return r
}

func vstubLoadInt32(addr *int32) int32 {
	vAssert(addr == &vGen.inuseStreams, "C08/atomic/counter-address")
	return vI32("inuse")
}

func vNewGen() {
	b := vBound("buckets")
	if vBound("real") == 1 {
		vGen = New(vBound("proto"))
	} else {
		st := make([]uint64, b)
		st[0] = 1 << 63
		vGen = &IDGenerator{NumStreams: b * 64, streams: st, numBuckets: uint32(b)}
		for i := 1; i < b; i++ {
			vGen.offset++ // = numBuckets-1, written so that it does not depend on the field's integer type
		}
	}
	vMine = make([]uint64, len(vGen.streams))
	vCasOK, vAdds = nil, nil
	vFailBudget = vBound("cas_failures")
}

func vh_getstream() {
	vNewGen()
	id, ok := vGen.GetStream()
	if ok {
		vAssert(len(vCasOK) == 1, "C08/get/exactly-one-successful-cas")
		if len(vCasOK) == 1 {
			c := vCasOK[0]
			m := c.new ^ c.old
			vAssert(c.new == c.old|m && m != 0 && m&(m-1) == 0 && c.old&m == 0, "C08/get/cas-sets-exactly-one-clear-bit")
			vAssert(id > 0 && id < vGen.NumStreams, "C08/get/id-in-range-and-not-zero")
			vAssert(c.word == id/64 && m == uint64(1)<<(63-uint(id%64)), "C08/get/returned-id-is-the-bit-it-set")
		}
		vAssert(len(vAdds) == 1 && vAdds[0] == 1, "C08/get/counts-once")
	} else {
		vAssert(id == 0 && len(vCasOK) == 0 && len(vAdds) == 0, "C08/get/failure-writes-nothing")
	}
	vObserve("ok", ok)
}

// exhaustion is never reported while some non-reserved id stays free for the whole call
func vh_getstream_free() {
	vNewGen()
	vFreeAssume = true
	vFreeWord = vChoose("free_word", len(vGen.streams))
	bit := vU8("free_bit")
	vAssume(bit < 64 && !(vFreeWord == 0 && bit == 63))
	vFreeMask = uint64(1) << bit
	_, ok := vGen.GetStream()
	vAssert(ok, "C08/get/no-exhaustion-while-an-id-stays-free")
	vFreeAssume = false
}

func vh_clear() {
	vNewGen()
	s := vInt("stream")
	vAssume(s > 0 && s < vGen.NumStreams)
	owned := vBool("owned")
	word := s / 64
	m := uint64(1) << (63 - uint(s%64))
	if owned {
		vMine[word] = m
	}
	r := vGen.Clear(s)
	if r {
		vAssert(len(vCasOK) == 1, "C08/clear/exactly-one-successful-cas")
		if len(vCasOK) == 1 {
			c := vCasOK[0]
			vAssert(c.word == word && c.old&m == m && c.new == c.old&^m, "C08/clear/cas-clears-exactly-that-set-bit")
		}
		vAssert(len(vAdds) == 1 && vAdds[0] == -1, "C08/clear/counts-once")
	} else {
		vAssert(len(vCasOK) == 0 && len(vAdds) == 0, "C08/clear/already-clear-writes-nothing")
	}
	vAssert(!owned || r, "C08/clear/reports-in-use-for-an-id-in-use")
	vObserve("r", r)
}

func vh_available() {
	vNewGen()
	a := vGen.Available()
	// the stub returns an arbitrary counter value; Available must be NumStreams - inuse - 1
	vAssert(len(vAdds) == 0, "C08/available/read-only")
	vObserve("a", a >= -1<<40)
}

// sequential corollary: from New(p), NumStreams-1 successive GetStream calls return pairwise
// distinct ids in range, the next one fails, Clear makes exactly that id available again.
func vh_sequential() {
	g := New(vBound("proto"))
	seen := make([]bool, g.NumStreams)
	for i := 0; i < g.NumStreams-1; i++ {
		id, ok := g.GetStream()
		vAssert(ok && id > 0 && id < g.NumStreams && !seen[id], "C08/sequential/all-ids-distinct-before-failing")
		if !ok {
			return
		}
		seen[id] = true
	}
	vAssert(g.Available() == 0, "C08/sequential/available-zero-when-full")
	_, ok := g.GetStream()
	vAssert(!ok, "C08/sequential/fails-only-when-full")
	vAssert(g.Clear(77) && !g.Clear(77), "C08/sequential/double-release-harmless")
	vAssert(g.Available() == 1, "C08/sequential/available-counts-free-ids")
	id, ok := g.GetStream()
	vAssert(ok && id == 77, "C08/sequential/released-id-is-reused")
}

// the generator every connection starts from: capacity and initial bitmap for each protocol version
// (1..127 usable ids for v1-2, 1..32767 for v3+; only the reserved id 0 is marked in use)
func vh_new() {
	proto := 1 + vChoose("proto", 5)
	g := New(proto)
	want := 128
	if proto > 2 {
		want = 32768
	}
	vAssert(g.NumStreams == want, "C08/new/capacity-is-the-protocols-id-range")
	vAssert(len(g.streams)*bucketBits == g.NumStreams && int(g.numBuckets) == len(g.streams), "C08/new/one-bit-per-id")
	vAssert(g.Available() == want-1, "C08/new/all-non-reserved-ids-available")
	clean := g.streams[0] == 1<<63
	for i := 1; i < len(g.streams); i++ {
		clean = clean && g.streams[i] == 0
	}
	vAssert(clean, "C08/new/only-id-0-is-reserved")
	vAssert(int64(g.offset) >= 0 && int64(g.offset) < int64(g.numBuckets), "C08/new/offset-in-range")
	vObserve("n", g.NumStreams)
}

// the id arithmetic, for every word of the widest bitmap (512 words, protocol >= 3) and every bit:
// the id GetStream reports for bit j of word b is the id whose Clear / isSet address exactly that
// bit, it fits the protocol's stream field, and distinct (word, bit) pairs give distinct ids.
func vh_id_mapping() {
	b := vInt("bucket")
	j := vInt("bit")
	vAssume(b >= 0 && b < 512 && j >= 0 && j < bucketBits)
	id := streamFromBucket(b, j)
	vAssert(id >= 0 && id < 32768, "C08/ids/fit-the-15-bit-stream-field")
	vAssert(b >= 2 || id < 128, "C08/ids/fit-the-7-bit-stream-field-for-two-words")
	if id >= 0 && id < 32768 {
		vAssert(bucketOffset(id) == b && streamOffset(id) == streamOffset(j), "C08/ids/clear-addresses-the-bit-getstream-set")
		vAssert(isSet(uint64(1)<<streamOffset(j), id), "C08/ids/isset-addresses-the-bit-getstream-set")
	}
	b2 := vInt("bucket2")
	j2 := vInt("bit2")
	vAssume(b2 >= 0 && b2 < 512 && j2 >= 0 && j2 < bucketBits)
	if b2 != b || j2 != j {
		vAssert(streamFromBucket(b2, j2) != id, "C08/ids/distinct-bits-have-distinct-ids")
	}
	vAssert((id == 0) == (b == 0 && j == 0), "C08/ids/only-the-reserved-bit-is-id-0")
}

// GetStream on the real New(p) generator (128 or 32768 ids) when the first word it probes is
// word w and that word keeps one free id for the whole call: the id comes from word w.
var vWideWords = []int{0, 1, 255, 510, 511}

func vh_getstream_wide() {
	vGen = New(vBound("proto"))
	vMine = make([]uint64, len(vGen.streams))
	vCasOK, vAdds = nil, nil
	vFailBudget = vBound("cas_failures")
	n := len(vGen.streams)
	var w int
	if vBound("all_words") == 1 {
		w = vChoose("word", n)
	} else {
		w = vWideWords[vChoose("word", len(vWideWords))]
	}
	vAssume(w < n)
	vWideOffset = uint32((w + n - 1) % n)
	vFreeAssume = true
	vFreeWord = w
	bit := vU8("free_bit")
	vAssume(bit < 64 && !(w == 0 && bit == 63))
	vFreeMask = uint64(1) << bit
	id, ok := vGen.GetStream()
	vFreeAssume = false
	vAssert(ok, "C08/get/no-exhaustion-while-an-id-stays-free")
	if ok && len(vCasOK) == 1 {
		c := vCasOK[0]
		m := c.new ^ c.old
		vAssert(id > 0 && id < vGen.NumStreams, "C08/get/id-in-range-and-not-zero")
		vAssert(c.word == w && c.word == id/64 && m == uint64(1)<<(63-uint(id%64)), "C08/get/returned-id-is-the-bit-it-set")
		// releasing the id clears exactly that bit
		vMine[c.word] = m
		vCasOK = nil
		vFailBudget = 0
		r := vGen.Clear(id)
		vAssert(r && len(vCasOK) == 1 && vCasOK[0].word == c.word && vCasOK[0].new == vCasOK[0].old&^m, "C08/clear/cas-clears-exactly-that-set-bit")
	}
	vObserve("id", id)
}

var vWideOffset uint32

func vstubLoadUint32Wide(addr *uint32) uint32 {
	vAssert(vIsOffset(unsafe.Pointer(addr)), "C08/atomic/offset-address")
	return vWideOffset
}
