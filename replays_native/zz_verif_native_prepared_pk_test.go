package gocql

import (
	"context"
	"net"
	"runtime/debug"
	"testing"

	"github.com/gocql/gocql/internal/lru"
	"github.com/gocql/gocql/internal/streams"
)

// Native reproduction of the C05 finding "PREPARED partition key index beyond the bind columns":
// a protocol-4 RESULT/Prepared body with one bind column and pk index 1 is parsed by the real parser
// and stored the way Conn.prepareStatement stores it; Session.routingKeyInfo (what the token-aware
// policy calls in the goroutine executing the query) then indexed the columns with it.
func TestVerifNativePreparedPkIndexOutOfRange(t *testing.T) {
	body := []byte{0, 0, 0, 4, 0, 1, 0x01} // kind prepared, id [short bytes] 01
	body = append(body, 0, 0, 0, 1)        // flags: global table spec
	body = append(body, 0, 0, 0, 1)        // one column
	body = append(body, 0, 0, 0, 1, 0, 1)  // pk count 1, index 1 (out of range)
	body = append(body, 0, 2, 'k', 's', 0, 1, 't')
	body = append(body, 0, 1, 'a', 0, 9) // column a int
	body = append(body, 0, 0, 0, 0, 0, 0, 0, 0) // result metadata: flags 0, 0 columns
	f := &framer{proto: 4, headSize: 9, header: &frameHeader{version: 0x84, op: opResult, length: len(body)}, buf: body}
	fr, err := f.parseFrame()
	if err != nil {
		t.Logf("frame rejected by the parser: %v", err)
		return
	}
	x := fr.(*resultPreparedFrame)

	s := &Session{stmtsLRU: &preparedLRU{lru: lru.New(4)}, logger: nopLogger{}}
	s.routingKeyInfoCache.lru = lru.New(4)
	host := &HostInfo{hostId: "00000000-0000-0000-0000-000000000001", state: NodeUp, connectAddress: net.IPv4(10, 0, 0, 1), port: 9042}
	c := &Conn{streams: streams.New(4), session: s, host: host, version: 4, currentKeyspace: "ks", ctx: context.Background(), logger: nopLogger{}}
	s.ring.addHostIfMissing(host)
	s.pool = &policyConnPool{session: s, hostConnPools: map[string]*hostConnPool{host.HostID(): {session: s, host: host, size: 1, conns: []*Conn{c}}}}
	stmt := "SELECT b FROM t WHERE a=?"
	fl := &inflightPrepare{done: make(chan struct{}), preparedStatment: &preparedStatment{id: x.preparedID, request: x.reqMeta, response: x.respMeta}}
	close(fl.done)
	s.stmtsLRU.add(s.stmtsLRU.keyFor(host.HostID(), "ks", stmt), fl)
	defer func() {
		if r := recover(); r != nil {
			t.Fatalf("VFAIL no-panic: routingKeyInfo panicked: %v\n%s", r, debug.Stack())
		}
	}()
	_, _ = s.routingKeyInfo(context.Background(), stmt)
}
