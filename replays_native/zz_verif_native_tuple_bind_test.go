package gocql

import (
	"bufio"
	"context"
	"io"
	"net"
	"testing"
	"time"

	"github.com/gocql/gocql/internal/lru"
	"github.com/gocql/gocql/internal/streams"
)

// Native reproduction of the C14 finding "tuple bind marker": a statement with ONE bind marker of type
// tuple<int,int>. Binding one value (the tuple) was refused ("expected 2 values send got 1"), binding two
// values - what that message asks for - indexed past the bind columns and panicked in the caller.
func TestVerifNativeTupleBindMarker(t *testing.T) {
	client, server := net.Pipe()
	defer server.Close()
	ctx, cancel := context.WithCancel(context.Background())
	defer cancel()
	s := &Session{stmtsLRU: &preparedLRU{lru: lru.New(10)}, logger: nopLogger{}}
	s.cfg.DisableSkipMetadata = true
	c := &Conn{
		conn: client, r: bufio.NewReader(client), calls: make(map[int]*callReq), version: protoVersion4,
		streams: streams.New(protoVersion4), errorHandler: connErrorHandlerFn(func(*Conn, error, bool) {}),
		host: &HostInfo{hostId: "00000000-0000-0000-0000-000000000001"},
		w:    &deadlineContextWriter{w: client, semaphore: make(chan struct{}, 1), quit: make(chan struct{})},
		ctx:  ctx, cancel: cancel, logger: nopLogger{}, cfg: &ConnConfig{}, session: s,
	}
	go c.serve(ctx)
	executes := make(chan int, 4)
	go func() {
		for {
			var h [9]byte
			if _, err := io.ReadFull(server, h[:]); err != nil {
				return
			}
			n := int(h[5])<<24 | int(h[6])<<16 | int(h[7])<<8 | int(h[8])
			body := make([]byte, n)
			io.ReadFull(server, body)
			var out []byte
			switch h[4] {
			case 0x09: // PREPARE -> RESULT/Prepared: id "P", 1 bind column ks.t.c tuple<int,int>, no result columns
				out = []byte{0, 0, 0, 4, 0, 1, 'P',
					0, 0, 0, 1, 0, 0, 0, 1, 0, 0, 0, 0, // flags global spec, 1 column, 0 pk
					0, 2, 'k', 's', 0, 1, 't',
					0, 1, 'c', 0, 0x31, 0, 2, 0, 9, 0, 9, // tuple of 2 ints
					0, 0, 0, 4, 0, 0, 0, 0} // result metadata: no_metadata, 0 columns
			case 0x0A: // EXECUTE -> void; report how many values were bound
				p := 2 + int(body[0])<<8 + int(body[1]) // skip the id
				p += 2                                  // consistency
				nvals := 0
				if body[p]&1 != 0 {
					nvals = int(body[p+1])<<8 | int(body[p+2])
				}
				executes <- nvals
				out = []byte{0, 0, 0, 1}
			}
			server.Write(append([]byte{0x84, 0, h[2], h[3], 0x08, 0, 0, 0, byte(len(out))}, out...))
		}
	}()
	run := func(vals ...interface{}) (err error, panicked interface{}) {
		defer func() { panicked = recover() }()
		q := &Query{stmt: "INSERT INTO t(c) VALUES (?)", values: vals, session: s, routingInfo: &queryRoutingInfo{}, context: ctx}
		it := c.executeQuery(ctx, q)
		return it.err, nil
	}
	done := make(chan struct{})
	go func() {
		defer close(done)
		if err, p := run([]interface{}{1, 2}); err != nil || p != nil {
			t.Errorf("VFAIL C14/values/right-count-is-sent: one value for the one tuple bind marker: err=%v panic=%v", err, p)
		} else if n := <-executes; n != 1 {
			t.Errorf("EXECUTE carried %d values, want 1", n)
		}
		if _, p := run([]interface{}{1, 2}, 3); p != nil {
			t.Errorf("VFAIL no-panic: two values for one bind marker panicked: %v", p)
		}
	}()
	select {
	case <-done:
	case <-time.After(5 * time.Second):
		t.Fatal("timeout")
	}
}
