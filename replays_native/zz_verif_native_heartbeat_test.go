package gocql

import (
	"bufio"
	"context"
	"io"
	"net"
	"testing"
	"time"

	"github.com/gocql/gocql/internal/streams"
)

// Native reproduction of the C05 finding "heartbeat panics on an unexpected reply": the server answers the
// periodic OPTIONS with READY (a well-formed frame of a kind not expected there). Conn.heartBeat ran into
// panic("gocql: unknown frame in response to options") in its own goroutine.
func TestVerifNativeHeartbeatUnexpectedReply(t *testing.T) {
	client, server := net.Pipe()
	defer server.Close()
	ctx, cancel := context.WithCancel(context.Background())
	defer cancel()
	c := &Conn{
		conn: client, r: bufio.NewReader(client), calls: make(map[int]*callReq), version: protoVersion4,
		streams: streams.New(protoVersion4), errorHandler: connErrorHandlerFn(func(*Conn, error, bool) {}), host: &HostInfo{},
		w:   &deadlineContextWriter{w: client, semaphore: make(chan struct{}, 1), quit: make(chan struct{})},
		ctx: ctx, cancel: cancel, logger: nopLogger{}, cfg: &ConnConfig{},
	}
	go c.serve(ctx)
	go func() { // scripted server: every request is answered with READY
		for {
			var h [9]byte
			if _, err := io.ReadFull(server, h[:]); err != nil {
				return
			}
			n := int(h[5])<<24 | int(h[6])<<16 | int(h[7])<<8 | int(h[8])
			io.CopyN(io.Discard, server, int64(n))
			server.Write([]byte{0x84, 0, h[2], h[3], 0x02, 0, 0, 0, 0})
		}
	}()
	done := make(chan interface{}, 1)
	go func() {
		defer func() { done <- recover() }()
		c.heartBeat(ctx)
	}()
	select {
	case r := <-done:
		if r != nil {
			t.Fatalf("VFAIL no-panic: heartbeat panicked: %v", r)
		}
	case <-time.After(3 * time.Second):
		// still looping after the first unexpected reply: it did not panic
	}
}
