package gocql

import (
	"bufio"
	"context"
	"io"
	"net"
	"testing"
	"time"

	"github.com/gocql/gocql/internal/streams"
)

// Native reproduction of the C05 finding "AUTH_CHALLENGE after PasswordAuthenticator": the server
// answers STARTUP with AUTHENTICATE and the AUTH_RESPONSE with AUTH_CHALLENGE. PasswordAuthenticator
// returns no challenger, so authenticateHandshake called Challenge on a nil interface.
func TestVerifNativeHandshakeChallengeAfterPassword(t *testing.T) {
	client, server := net.Pipe()
	defer server.Close()
	ctx, cancel := context.WithCancel(context.Background())
	c := &Conn{
		conn: client, r: bufio.NewReader(client), calls: make(map[int]*callReq), version: protoVersion4,
		streams: streams.New(protoVersion4), errorHandler: connErrorHandlerFn(func(*Conn, error, bool) {}), host: &HostInfo{},
		w:   &deadlineContextWriter{w: client, semaphore: make(chan struct{}, 1), quit: make(chan struct{})},
		ctx: ctx, cancel: cancel, logger: nopLogger{}, cfg: &ConnConfig{CQLVersion: "3.0.0"},
		auth: PasswordAuthenticator{Username: "u", Password: "p"},
	}
	sc := &startupCoordinator{conn: c, frameTicker: make(chan struct{})}
	go func() { // what setupConn does: one recv per request written
		for range sc.frameTicker {
			if err := c.recv(ctx); err != nil {
				return
			}
		}
	}()
	// scripted server: v4 frames, header = version|0x80, flags, stream(2), opcode, length(4)
	reply := func(stream [2]byte, op byte, body []byte) {
		h := []byte{0x84, 0, stream[0], stream[1], op, 0, 0, 0, byte(len(body))}
		server.Write(append(h, body...))
	}
	readReq := func() (stream [2]byte) {
		var h [9]byte
		if _, err := io.ReadFull(server, h[:]); err != nil {
			return
		}
		n := int(h[5])<<24 | int(h[6])<<16 | int(h[7])<<8 | int(h[8])
		io.CopyN(io.Discard, server, int64(n))
		return [2]byte{h[2], h[3]}
	}
	go func() {
		s := readReq() // STARTUP
		class := "org.apache.cassandra.auth.PasswordAuthenticator"
		reply(s, 0x03, append([]byte{0, byte(len(class))}, class...)) // AUTHENTICATE
		s = readReq()                                                 // AUTH_RESPONSE
		reply(s, 0x0E, []byte{0, 0, 0, 1, 'c'})                       // AUTH_CHALLENGE
		readReq()
	}()
	done := make(chan error, 1)
	go func() {
		defer func() {
			if r := recover(); r != nil {
				t.Errorf("VFAIL no-panic: handshake panicked: %v", r)
				done <- nil
			}
		}()
		done <- sc.startup(ctx, map[string][]string{})
	}()
	select {
	case err := <-done:
		if err == nil && !t.Failed() {
			t.Fatal("handshake reported success after an unanswerable AUTH_CHALLENGE")
		}
	case <-time.After(5 * time.Second):
		t.Fatal("handshake did not finish")
	}
}
