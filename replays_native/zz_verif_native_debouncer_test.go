package gocql

import (
	"testing"
	"time"
)

// Native reproduction of the C06/C17 finding "refreshDebouncer.stop() blocks forever":
// the flusher is woken by a refresh request, waits for the mutex while stop() sets `stopped`,
// then returns without receiving stop()'s rendezvous send on quit.
func TestVerifNativeRefreshDebouncerStop(t *testing.T) {
	d := newRefreshDebouncer(time.Hour, func() error { return nil })
	d.mu.Lock() // the flusher will block on this after waking up
	d.refreshNowCh <- struct{}{}
	time.Sleep(50 * time.Millisecond) // flusher: woken by refreshNowCh, now waiting for d.mu
	// what stop() does, step by step
	d.stopped = true
	d.mu.Unlock()
	done := make(chan struct{})
	go func() {
		d.quit <- struct{}{} // sync with flusher
		close(d.quit)
		close(done)
	}()
	select {
	case <-done:
	case <-time.After(2 * time.Second):
		t.Fatal("VFAIL C06/debouncer/refresh-flusher-receives-stops-rendezvous: stop() is blocked forever sending on quit")
	}
}
