package gocql

import (
	"context"
	"errors"
	"io"
	"net"
	"testing"
	"time"
)

// Native reproduction of the C06/C17 finding "late connection closed under the pool lock": the pool
// is closed while a connection is being dialled; hostConnPool.connect then closes the late connection
// while holding pool.mu. When closing the socket reports an error (TLS close_notify on a broken
// link, ...), Conn.closeWithError reports it to the connection's error handler - the pool - whose
// HandleError locks pool.mu again: the connect goroutine deadlocks with the lock held, and every later
// Size / Pick / Close on that pool (hence Session.Close) hangs.
type vCloseErrConn struct{ net.Conn }

func (c vCloseErrConn) Close() error {
	c.Conn.Close()
	return errors.New("verif: closing the socket failed")
}

type vPipeDialer struct{}

func (vPipeDialer) DialHost(ctx context.Context, host *HostInfo) (*DialedHost, error) {
	client, server := net.Pipe()
	go func() { // scripted v4 node: SUPPORTED for OPTIONS, READY for STARTUP
		defer server.Close()
		for {
			var h [9]byte
			if _, err := io.ReadFull(server, h[:]); err != nil {
				return
			}
			n := int(h[5])<<24 | int(h[6])<<16 | int(h[7])<<8 | int(h[8])
			io.CopyN(io.Discard, server, int64(n))
			switch h[4] {
			case 0x05: // OPTIONS -> SUPPORTED {}
				server.Write([]byte{0x84, 0, h[2], h[3], 0x06, 0, 0, 0, 2, 0, 0})
			case 0x01: // STARTUP -> READY
				server.Write([]byte{0x84, 0, h[2], h[3], 0x02, 0, 0, 0, 0})
			default:
				return
			}
		}
	}()
	return &DialedHost{Conn: vCloseErrConn{client}}, nil
}

func TestVerifNativePoolLateCloseUnderLock(t *testing.T) {
	ctx, cancel := context.WithCancel(context.Background())
	defer cancel()
	s := &Session{ctx: ctx, logger: nopLogger{}}
	s.cfg.ReconnectionPolicy = &ConstantReconnectionPolicy{MaxRetries: 1}
	s.connCfg = &ConnConfig{ProtoVersion: 4, CQLVersion: "3.0.0", HostDialer: vPipeDialer{}, ConnectTimeout: 2 * time.Second, Timeout: 2 * time.Second, Logger: nopLogger{}}
	pool := &hostConnPool{session: s, host: &HostInfo{hostId: "h", connectAddress: net.IPv4(127, 0, 0, 1), port: 9042}, size: 1, logger: nopLogger{}}
	pool.closed = true // Close() ran while the connection below was being dialled

	done := make(chan error, 1)
	go func() { done <- pool.connect() }()
	select {
	case err := <-done:
		if err != nil {
			t.Fatalf("connect: %v", err)
		}
	case <-time.After(5 * time.Second):
		t.Fatal("VFAIL no-block: hostConnPool.connect never returned: it closed the late connection under pool.mu and the close error came back to HandleError")
	}
	sized := make(chan int, 1)
	go func() { sized <- pool.Size() }()
	select {
	case <-sized:
	case <-time.After(2 * time.Second):
		t.Fatal("VFAIL no-block: pool.Size blocks: pool.mu is still held")
	}
}
