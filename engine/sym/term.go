// Package sym is the symbolic executor for go/ssa (ssasym).
package sym

import (
	"fmt"
	"math/big"
	"strings"
)

// Op is a term operator.
type Op uint8

const (
	OpConst Op = iota // BV constant (W>0) or Bool constant (W==0)
	OpVar
	OpNot // bool not
	OpAnd // bool and (n-ary kept binary)
	OpOr
	OpEq  // any sort -> bool
	OpIte // cond, a, b
	OpBVAdd
	OpBVSub
	OpBVMul
	OpBVUDiv
	OpBVURem
	OpBVSDiv
	OpBVSRem
	OpBVAnd
	OpBVOr
	OpBVXor
	OpBVNot
	OpBVNeg
	OpBVShl
	OpBVLShr
	OpBVAShr
	OpBVUlt
	OpBVUle
	OpBVSlt
	OpBVSle
	OpConcat
	OpExtract // I1=hi I2=lo
	OpZExt    // I1=extra bits
	OpSExt
	OpUF // uninterpreted function Name(args...) -> BV W
)

var opNames = [...]string{
	OpNot: "not", OpAnd: "and", OpOr: "or", OpEq: "=", OpIte: "ite",
	OpBVAdd: "bvadd", OpBVSub: "bvsub", OpBVMul: "bvmul", OpBVUDiv: "bvudiv", OpBVURem: "bvurem",
	OpBVSDiv: "bvsdiv", OpBVSRem: "bvsrem", OpBVAnd: "bvand", OpBVOr: "bvor", OpBVXor: "bvxor",
	OpBVNot: "bvnot", OpBVNeg: "bvneg", OpBVShl: "bvshl", OpBVLShr: "bvlshr", OpBVAShr: "bvashr",
	OpBVUlt: "bvult", OpBVUle: "bvule", OpBVSlt: "bvslt", OpBVSle: "bvsle", OpConcat: "concat",
}

// Term is a hash-consed SMT term. W==0 means Bool, else bit-vector of width W.
type Term struct {
	ID   int
	Op   Op
	W    int
	Args []*Term
	V    uint64   // constant value when W<=64 (bool: 0/1)
	Big  *big.Int // constant value when W>64
	Name string   // var / UF name
	I1   int
	I2   int
}

func (t *Term) IsConst() bool { return t.Op == OpConst }
func (t *Term) IsTrue() bool  { return t.Op == OpConst && t.W == 0 && t.V == 1 }
func (t *Term) IsFalse() bool { return t.Op == OpConst && t.W == 0 && t.V == 0 }

// Ctx owns the term table of one worker.
type Ctx struct {
	terms  map[string]*Term
	all    []*Term
	vars   map[string]*Term
	True   *Term
	False  *Term
	UFSigs map[string][]int // name -> arg widths..., result width last
}

func NewCtx() *Ctx {
	c := &Ctx{terms: map[string]*Term{}, vars: map[string]*Term{}, UFSigs: map[string][]int{}}
	c.True = c.mk(&Term{Op: OpConst, W: 0, V: 1})
	c.False = c.mk(&Term{Op: OpConst, W: 0, V: 0})
	return c
}

func (c *Ctx) NumTerms() int { return len(c.all) }

func (c *Ctx) key(t *Term) string {
	var sb strings.Builder
	fmt.Fprintf(&sb, "%d:%d:", t.Op, t.W)
	switch t.Op {
	case OpConst:
		if t.Big != nil {
			sb.WriteString(t.Big.Text(16))
		} else {
			fmt.Fprintf(&sb, "%x", t.V)
		}
	case OpVar:
		sb.WriteString(t.Name)
	case OpUF:
		sb.WriteString(t.Name)
		sb.WriteByte(':')
	case OpExtract, OpZExt, OpSExt:
		fmt.Fprintf(&sb, "%d,%d:", t.I1, t.I2)
	}
	for _, a := range t.Args {
		fmt.Fprintf(&sb, "%d,", a.ID)
	}
	return sb.String()
}

func (c *Ctx) mk(t *Term) *Term {
	k := c.key(t)
	if o, ok := c.terms[k]; ok {
		return o
	}
	t.ID = len(c.all)
	c.all = append(c.all, t)
	c.terms[k] = t
	return t
}

func mask(w int) uint64 {
	if w >= 64 {
		return ^uint64(0)
	}
	return (uint64(1) << uint(w)) - 1
}

func bigMask(w int) *big.Int {
	m := new(big.Int).Lsh(big.NewInt(1), uint(w))
	return m.Sub(m, big.NewInt(1))
}

func (c *Ctx) Bool(b bool) *Term {
	if b {
		return c.True
	}
	return c.False
}

// BV makes a constant of width w (w<=64) from v.
func (c *Ctx) BV(w int, v uint64) *Term {
	if w == 0 {
		panic("BV width 0")
	}
	if w > 64 {
		return c.BVBig(w, new(big.Int).SetUint64(v))
	}
	return c.mk(&Term{Op: OpConst, W: w, V: v & mask(w)})
}

func (c *Ctx) BVBig(w int, v *big.Int) *Term {
	if w <= 64 {
		x := new(big.Int).And(v, bigMask(w))
		return c.BV(w, x.Uint64())
	}
	x := new(big.Int).And(v, bigMask(w))
	return c.mk(&Term{Op: OpConst, W: w, Big: x})
}

func (c *Ctx) Var(name string, w int) *Term {
	if v, ok := c.vars[name]; ok {
		if v.W != w {
			panic("var redeclared with different width: " + name)
		}
		return v
	}
	t := c.mk(&Term{Op: OpVar, W: w, Name: name})
	c.vars[name] = t
	return t
}

// constBig returns the constant as big.Int (unsigned).
func (t *Term) constBig() *big.Int {
	if t.Big != nil {
		return t.Big
	}
	return new(big.Int).SetUint64(t.V)
}

func signed64(w int, v uint64) int64 {
	if w >= 64 {
		return int64(v)
	}
	if v&(1<<uint(w-1)) != 0 {
		return int64(v | ^mask(w))
	}
	return int64(v)
}

func (c *Ctx) Not(a *Term) *Term {
	if a.W != 0 {
		panic("Not on non-bool")
	}
	if a.IsConst() {
		return c.Bool(a.V == 0)
	}
	if a.Op == OpNot {
		return a.Args[0]
	}
	return c.mk(&Term{Op: OpNot, W: 0, Args: []*Term{a}})
}

func (c *Ctx) And(a, b *Term) *Term {
	if a.IsConst() {
		if a.V == 1 {
			return b
		}
		return c.False
	}
	if b.IsConst() {
		if b.V == 1 {
			return a
		}
		return c.False
	}
	if a == b {
		return a
	}
	if (a.Op == OpNot && a.Args[0] == b) || (b.Op == OpNot && b.Args[0] == a) {
		return c.False
	}
	if a.ID > b.ID {
		a, b = b, a
	}
	return c.mk(&Term{Op: OpAnd, W: 0, Args: []*Term{a, b}})
}

func (c *Ctx) Or(a, b *Term) *Term {
	if a.IsConst() {
		if a.V == 1 {
			return c.True
		}
		return b
	}
	if b.IsConst() {
		if b.V == 1 {
			return c.True
		}
		return a
	}
	if a == b {
		return a
	}
	if (a.Op == OpNot && a.Args[0] == b) || (b.Op == OpNot && b.Args[0] == a) {
		return c.True
	}
	if a.ID > b.ID {
		a, b = b, a
	}
	return c.mk(&Term{Op: OpOr, W: 0, Args: []*Term{a, b}})
}

func (c *Ctx) AndN(ts ...*Term) *Term {
	r := c.True
	for _, t := range ts {
		r = c.And(r, t)
	}
	return r
}

func (c *Ctx) Implies(a, b *Term) *Term { return c.Or(c.Not(a), b) }

func (c *Ctx) Eq(a, b *Term) *Term {
	if a.W != b.W {
		panic(fmt.Sprintf("Eq width mismatch %d %d", a.W, b.W))
	}
	if a == b {
		return c.True
	}
	if a.IsConst() && b.IsConst() {
		return c.False // hash-consed constants: different ids => different values
	}
	if a.W == 0 {
		if a.IsConst() {
			if a.V == 1 {
				return b
			}
			return c.Not(b)
		}
		if b.IsConst() {
			if b.V == 1 {
				return a
			}
			return c.Not(a)
		}
	}
	// eq(ite(c,k1,k2), k) with constants
	if b.IsConst() && a.Op == OpIte && a.Args[1].IsConst() && a.Args[2].IsConst() {
		return c.Ite(a.Args[0], c.Eq(a.Args[1], b), c.Eq(a.Args[2], b))
	}
	if a.IsConst() && b.Op == OpIte && b.Args[1].IsConst() && b.Args[2].IsConst() {
		return c.Ite(b.Args[0], c.Eq(b.Args[1], a), c.Eq(b.Args[2], a))
	}
	// eq(concat(h,l), const) splits
	if b.IsConst() && a.Op == OpConcat && a.W <= 64 {
		l := a.Args[1]
		return c.And(c.Eq(a.Args[0], c.BV(a.Args[0].W, b.V>>uint(l.W))), c.Eq(l, c.BV(l.W, b.V)))
	}
	if a.IsConst() && b.Op == OpConcat && b.W <= 64 {
		return c.Eq(b, a)
	}
	// eq(zext(x), const)
	if b.IsConst() && a.Op == OpZExt && a.W <= 64 {
		xw := a.Args[0].W
		if b.V&^mask(xw) != 0 {
			return c.False
		}
		return c.Eq(a.Args[0], c.BV(xw, b.V))
	}
	if a.IsConst() && b.Op == OpZExt && b.W <= 64 {
		return c.Eq(b, a)
	}
	if a.ID > b.ID {
		a, b = b, a
	}
	return c.mk(&Term{Op: OpEq, W: 0, Args: []*Term{a, b}})
}

func (c *Ctx) Ite(cond, a, b *Term) *Term {
	if cond.W != 0 {
		panic("Ite cond not bool")
	}
	if a.W != b.W {
		panic(fmt.Sprintf("Ite width mismatch %d %d", a.W, b.W))
	}
	if cond.IsConst() {
		if cond.V == 1 {
			return a
		}
		return b
	}
	if a == b {
		return a
	}
	if a.W == 0 {
		if a.IsTrue() && b.IsFalse() {
			return cond
		}
		if a.IsFalse() && b.IsTrue() {
			return c.Not(cond)
		}
		if a.IsTrue() {
			return c.Or(cond, b)
		}
		if a.IsFalse() {
			return c.And(c.Not(cond), b)
		}
		if b.IsTrue() {
			return c.Or(c.Not(cond), a)
		}
		if b.IsFalse() {
			return c.And(cond, a)
		}
	}
	if cond.Op == OpNot {
		return c.Ite(cond.Args[0], b, a)
	}
	// ite(c, x, ite(c, y, z)) = ite(c, x, z)
	if b.Op == OpIte && b.Args[0] == cond {
		return c.Ite(cond, a, b.Args[2])
	}
	if a.Op == OpIte && a.Args[0] == cond {
		return c.Ite(cond, a.Args[1], b)
	}
	return c.mk(&Term{Op: OpIte, W: a.W, Args: []*Term{cond, a, b}})
}

func (c *Ctx) binBig(op Op, a, b *Term) *Term {
	x, y := a.constBig(), b.constBig()
	w := a.W
	r := new(big.Int)
	switch op {
	case OpBVAdd:
		r.Add(x, y)
	case OpBVSub:
		r.Sub(x, y)
		if r.Sign() < 0 {
			r.Add(r, new(big.Int).Lsh(big.NewInt(1), uint(w)))
		}
	case OpBVMul:
		r.Mul(x, y)
	case OpBVAnd:
		r.And(x, y)
	case OpBVOr:
		r.Or(x, y)
	case OpBVXor:
		r.Xor(x, y)
	case OpBVShl:
		if y.BitLen() > 16 || int(y.Uint64()) >= w {
			r.SetInt64(0)
		} else {
			r.Lsh(x, uint(y.Uint64()))
		}
	case OpBVLShr:
		if y.BitLen() > 16 || int(y.Uint64()) >= w {
			r.SetInt64(0)
		} else {
			r.Rsh(x, uint(y.Uint64()))
		}
	default:
		return nil
	}
	return c.BVBig(w, r)
}

func (c *Ctx) bin(op Op, a, b *Term) *Term {
	if a.W != b.W || a.W == 0 {
		panic(fmt.Sprintf("bin %s width mismatch %d %d", opNames[op], a.W, b.W))
	}
	w := a.W
	if a.IsConst() && b.IsConst() {
		if w > 64 {
			if r := c.binBig(op, a, b); r != nil {
				return r
			}
		} else {
			x, y := a.V, b.V
			m := mask(w)
			switch op {
			case OpBVAdd:
				return c.BV(w, x+y)
			case OpBVSub:
				return c.BV(w, x-y)
			case OpBVMul:
				return c.BV(w, x*y)
			case OpBVUDiv:
				if y == 0 {
					return c.BV(w, m)
				}
				return c.BV(w, x/y)
			case OpBVURem:
				if y == 0 {
					return c.BV(w, x)
				}
				return c.BV(w, x%y)
			case OpBVSDiv:
				sx, sy := signed64(w, x), signed64(w, y)
				if sy == 0 {
					if sx < 0 {
						return c.BV(w, 1)
					}
					return c.BV(w, m)
				}
				if sy == -1 {
					return c.BV(w, uint64(-sx))
				}
				return c.BV(w, uint64(sx/sy))
			case OpBVSRem:
				sx, sy := signed64(w, x), signed64(w, y)
				if sy == 0 {
					return c.BV(w, x)
				}
				if sy == -1 {
					return c.BV(w, 0)
				}
				return c.BV(w, uint64(sx%sy))
			case OpBVAnd:
				return c.BV(w, x&y)
			case OpBVOr:
				return c.BV(w, x|y)
			case OpBVXor:
				return c.BV(w, x^y)
			case OpBVShl:
				if y >= uint64(w) {
					return c.BV(w, 0)
				}
				return c.BV(w, x<<y)
			case OpBVLShr:
				if y >= uint64(w) {
					return c.BV(w, 0)
				}
				return c.BV(w, x>>y)
			case OpBVAShr:
				sx := signed64(w, x)
				if y >= uint64(w) {
					y = uint64(w - 1)
				}
				if y > 63 {
					y = 63
				}
				return c.BV(w, uint64(sx>>y))
			}
		}
	}
	// identities
	isZero := func(t *Term) bool { return t.IsConst() && t.Big == nil && t.V == 0 && t.W <= 64 }
	isOnes := func(t *Term) bool { return t.IsConst() && t.Big == nil && t.W <= 64 && t.V == mask(t.W) }
	switch op {
	case OpBVAdd:
		if isZero(a) {
			return b
		}
		if isZero(b) {
			return a
		}
		// (x + k1) + k2
		if b.IsConst() && a.Op == OpBVAdd && a.Args[1].IsConst() && w <= 64 {
			return c.bin(OpBVAdd, a.Args[0], c.BV(w, a.Args[1].V+b.V))
		}
		if a.IsConst() && !b.IsConst() {
			a, b = b, a
		}
		// a + b with disjoint non-zero bit regions is a | b (no carries)
		if r := c.orSegmentsMode(a, b, true); r != nil {
			return r
		}
	case OpBVSub:
		if isZero(b) {
			return a
		}
		if a == b {
			return c.BV(w, 0)
		}
		// x - (x / k) * k  ==  x % k   (exact in wrap-around arithmetic, signed and unsigned)
		if b.Op == OpBVMul {
			for i := 0; i < 2; i++ {
				d, k := b.Args[i], b.Args[1-i]
				if (d.Op == OpBVSDiv || d.Op == OpBVUDiv) && d.Args[0] == a && d.Args[1] == k && k.IsConst() && !isZero(k) {
					if d.Op == OpBVSDiv {
						return c.bin(OpBVSRem, a, k)
					}
					return c.bin(OpBVURem, a, k)
				}
			}
		}
		if b.IsConst() && w <= 64 {
			return c.bin(OpBVAdd, a, c.BV(w, -b.V))
		}
	case OpBVMul:
		if isZero(a) || isZero(b) {
			return c.BV(w, 0)
		}
		if a.IsConst() && a.V == 1 && a.Big == nil {
			return b
		}
		if b.IsConst() && b.V == 1 && b.Big == nil {
			return a
		}
		if a.IsConst() && !b.IsConst() {
			a, b = b, a
		}
		// multiplication by a power of two is a shift
		if b.IsConst() && b.Big == nil && w <= 64 && b.V != 0 && b.V&(b.V-1) == 0 {
			k := 0
			for (b.V>>uint(k))&1 == 0 {
				k++
			}
			return c.bin(OpBVShl, a, c.BV(w, uint64(k)))
		}
	case OpBVAnd:
		if isZero(a) || isZero(b) {
			return c.BV(w, 0)
		}
		if isOnes(a) {
			return b
		}
		if isOnes(b) {
			return a
		}
		if a == b {
			return a
		}
		if a.IsConst() && !b.IsConst() {
			a, b = b, a
		}
		if b.IsConst() && b.Big == nil && w <= 64 {
			if r := c.andMask(a, b.V); r != nil {
				return r
			}
		}
	case OpBVOr:
		if isZero(a) {
			return b
		}
		if isZero(b) {
			return a
		}
		if isOnes(a) || isOnes(b) {
			return c.BV(w, mask(w))
		}
		if a == b {
			return a
		}
		if r := c.orSegments(a, b); r != nil {
			return r
		}
		if a.IsConst() && !b.IsConst() {
			a, b = b, a
		}
	case OpBVXor:
		if isZero(a) {
			return b
		}
		if isZero(b) {
			return a
		}
		if a == b {
			return c.BV(w, 0)
		}
		if a.IsConst() && !b.IsConst() {
			a, b = b, a
		}
	case OpBVShl, OpBVLShr, OpBVAShr:
		if isZero(b) {
			return a
		}
		if isZero(a) {
			return a
		}
		if b.IsConst() && b.Big == nil && b.V >= uint64(w) && op != OpBVAShr {
			return c.BV(w, 0)
		}
		// shifts by constant as extract/concat keep bit-blasting simple
		if b.IsConst() && b.constBig().IsUint64() && b.constBig().Uint64() < uint64(w) {
			k := int(b.constBig().Uint64())
			switch op {
			case OpBVShl:
				return c.Concat(c.Extract(a, w-1-k, 0), c.BV(k, 0))
			case OpBVLShr:
				return c.Concat(c.BV(k, 0), c.Extract(a, w-1, k))
			case OpBVAShr:
				return c.SExt(c.Extract(a, w-1, k), k)
			}
		}
	case OpBVUDiv, OpBVSDiv:
		if b.IsConst() && b.V == 1 && b.Big == nil {
			return a
		}
	}
	return c.mk(&Term{Op: op, W: w, Args: []*Term{a, b}})
}

type seg struct {
	t *Term // nil = zeros
	w int
}

func (c *Ctx) segs(t *Term, out []seg) []seg {
	switch t.Op {
	case OpConst:
		if t.Big == nil && t.V == 0 {
			return append(out, seg{nil, t.W})
		}
	case OpConcat:
		out = c.segs(t.Args[0], out)
		return c.segs(t.Args[1], out)
	case OpZExt:
		out = append(out, seg{nil, t.I1})
		return c.segs(t.Args[0], out)
	}
	return append(out, seg{t, t.W})
}

// orSegments rewrites a|b as a concatenation when the operands have disjoint zero regions
// (byte-assembly patterns such as x<<56 | y<<48 | ...). nil when nothing is gained.
func (c *Ctx) orSegments(a, b *Term) *Term { return c.orSegmentsMode(a, b, false) }

// orSegmentsMode: with disjointOnly the rewrite is applied only when no chunk has bits from both
// operands (then a+b == a|b).
func (c *Ctx) orSegmentsMode(a, b *Term, disjointOnly bool) *Term {
	if !(a.Op == OpConcat || a.Op == OpZExt) && !(b.Op == OpConcat || b.Op == OpZExt) {
		return nil
	}
	sa := c.segs(a, nil)
	sb := c.segs(b, nil)
	hasZero := func(ss []seg) bool {
		for _, s := range ss {
			if s.t == nil {
				return true
			}
		}
		return false
	}
	if !hasZero(sa) || !hasZero(sb) {
		return nil
	}
	// walk from the high end
	var res *Term
	gained := false
	i, j := 0, 0
	ra, rb := 0, 0 // bits already consumed from the current segments (from their high end)
	for i < len(sa) && j < len(sb) {
		wa, wb := sa[i].w-ra, sb[j].w-rb
		n := wa
		if wb < n {
			n = wb
		}
		piece := func(s seg, used int) *Term {
			if s.t == nil {
				return nil
			}
			hi := s.w - 1 - used
			return c.Extract(s.t, hi, hi-n+1)
		}
		pa, pb := piece(sa[i], ra), piece(sb[j], rb)
		var chunk *Term
		switch {
		case pa == nil && pb == nil:
			chunk = c.BV(n, 0)
			gained = true
		case pa == nil:
			chunk = pb
			gained = true
		case pb == nil:
			chunk = pa
			gained = true
		default:
			if disjointOnly {
				return nil
			}
			if pa.IsConst() && pb.IsConst() && n <= 64 {
				chunk = c.BV(n, pa.V|pb.V)
			} else if pa == pb {
				chunk = pa
			} else {
				x, y := pa, pb
				if x.ID > y.ID {
					x, y = y, x
				}
				chunk = c.mk(&Term{Op: OpBVOr, W: n, Args: []*Term{x, y}})
			}
		}
		if res == nil {
			res = chunk
		} else {
			res = c.Concat(res, chunk)
		}
		ra += n
		rb += n
		if ra == sa[i].w {
			i++
			ra = 0
		}
		if rb == sb[j].w {
			j++
			rb = 0
		}
	}
	if !gained {
		return nil
	}
	return res
}

// andMask rewrites x & const as zeros/extracts when the mask is a few runs of ones.
func (c *Ctx) andMask(x *Term, m uint64) *Term {
	w := x.W
	m &= mask(w)
	if m == 0 || m == mask(w) {
		return nil
	}
	// count runs
	runs := 0
	prev := uint64(0)
	for i := 0; i < w; i++ {
		bit := (m >> uint(i)) & 1
		if bit == 1 && prev == 0 {
			runs++
		}
		prev = bit
	}
	if runs > 3 {
		return nil
	}
	var res *Term
	i := w - 1
	for i >= 0 {
		bit := (m >> uint(i)) & 1
		j := i
		for j >= 0 && (m>>uint(j))&1 == bit {
			j--
		}
		var chunk *Term
		if bit == 1 {
			chunk = c.Extract(x, i, j+1)
		} else {
			chunk = c.BV(i-j, 0)
		}
		if res == nil {
			res = chunk
		} else {
			res = c.Concat(res, chunk)
		}
		i = j
	}
	return res
}

func (c *Ctx) Add(a, b *Term) *Term  { return c.bin(OpBVAdd, a, b) }
func (c *Ctx) Sub(a, b *Term) *Term  { return c.bin(OpBVSub, a, b) }
func (c *Ctx) Mul(a, b *Term) *Term  { return c.bin(OpBVMul, a, b) }
func (c *Ctx) UDiv(a, b *Term) *Term { return c.bin(OpBVUDiv, a, b) }
func (c *Ctx) URem(a, b *Term) *Term { return c.bin(OpBVURem, a, b) }
func (c *Ctx) SDiv(a, b *Term) *Term { return c.bin(OpBVSDiv, a, b) }
func (c *Ctx) SRem(a, b *Term) *Term { return c.bin(OpBVSRem, a, b) }
func (c *Ctx) BAnd(a, b *Term) *Term { return c.bin(OpBVAnd, a, b) }
func (c *Ctx) BOr(a, b *Term) *Term  { return c.bin(OpBVOr, a, b) }
func (c *Ctx) BXor(a, b *Term) *Term { return c.bin(OpBVXor, a, b) }
func (c *Ctx) Shl(a, b *Term) *Term  { return c.bin(OpBVShl, a, b) }
func (c *Ctx) LShr(a, b *Term) *Term { return c.bin(OpBVLShr, a, b) }
func (c *Ctx) AShr(a, b *Term) *Term { return c.bin(OpBVAShr, a, b) }

func (c *Ctx) BNot(a *Term) *Term {
	if a.IsConst() {
		if a.Big != nil {
			return c.BVBig(a.W, new(big.Int).Xor(a.Big, bigMask(a.W)))
		}
		return c.BV(a.W, ^a.V)
	}
	if a.Op == OpBVNot {
		return a.Args[0]
	}
	return c.mk(&Term{Op: OpBVNot, W: a.W, Args: []*Term{a}})
}

func (c *Ctx) Neg(a *Term) *Term {
	if a.IsConst() && a.Big == nil && a.W <= 64 {
		return c.BV(a.W, -a.V)
	}
	return c.Sub(c.BV(a.W, 0), a)
}

func (c *Ctx) cmp(op Op, a, b *Term) *Term {
	if a.W != b.W || a.W == 0 {
		panic(fmt.Sprintf("cmp width mismatch %d %d", a.W, b.W))
	}
	if a.IsConst() && b.IsConst() {
		if a.W > 64 {
			x, y := a.constBig(), b.constBig()
			switch op {
			case OpBVUlt:
				return c.Bool(x.Cmp(y) < 0)
			case OpBVUle:
				return c.Bool(x.Cmp(y) <= 0)
			case OpBVSlt, OpBVSle:
				sg := func(v *big.Int) *big.Int {
					if v.Bit(a.W-1) == 1 {
						return new(big.Int).Sub(v, new(big.Int).Lsh(big.NewInt(1), uint(a.W)))
					}
					return v
				}
				r := sg(x).Cmp(sg(y))
				if op == OpBVSlt {
					return c.Bool(r < 0)
				}
				return c.Bool(r <= 0)
			}
		} else {
			x, y := a.V, b.V
			sx, sy := signed64(a.W, x), signed64(a.W, y)
			switch op {
			case OpBVUlt:
				return c.Bool(x < y)
			case OpBVUle:
				return c.Bool(x <= y)
			case OpBVSlt:
				return c.Bool(sx < sy)
			case OpBVSle:
				return c.Bool(sx <= sy)
			}
		}
	}
	if a == b {
		return c.Bool(op == OpBVUle || op == OpBVSle)
	}
	if a.W <= 64 {
		switch op {
		case OpBVUlt:
			if b.IsConst() && b.V == 0 {
				return c.False
			}
			if a.IsConst() && a.V == mask(a.W) {
				return c.False
			}
			// zext(x) < const where const exceeds range
			if b.IsConst() && a.Op == OpZExt && b.V > mask(a.Args[0].W) {
				return c.True
			}
		case OpBVUle:
			if a.IsConst() && a.V == 0 {
				return c.True
			}
			if b.IsConst() && b.V == mask(a.W) {
				return c.True
			}
			if b.IsConst() && a.Op == OpZExt && b.V >= mask(a.Args[0].W) {
				return c.True
			}
		case OpBVSlt:
			// zext(x) <s const>=0
			if a.Op == OpZExt && b.IsConst() && signed64(b.W, b.V) > int64(mask(a.Args[0].W)) {
				return c.True
			}
			if a.Op == OpZExt && b.IsConst() && signed64(b.W, b.V) <= 0 {
				return c.False
			}
		case OpBVSle:
			if b.Op == OpZExt && a.IsConst() && signed64(a.W, a.V) <= 0 {
				return c.True
			}
			if a.Op == OpZExt && b.IsConst() && signed64(b.W, b.V) >= int64(mask(a.Args[0].W)) {
				return c.True
			}
			if a.Op == OpZExt && b.IsConst() && signed64(b.W, b.V) < 0 {
				return c.False
			}
		}
	}
	return c.mk(&Term{Op: op, W: 0, Args: []*Term{a, b}})
}

func (c *Ctx) Ult(a, b *Term) *Term { return c.cmp(OpBVUlt, a, b) }
func (c *Ctx) Ule(a, b *Term) *Term { return c.cmp(OpBVUle, a, b) }
func (c *Ctx) Slt(a, b *Term) *Term { return c.cmp(OpBVSlt, a, b) }
func (c *Ctx) Sle(a, b *Term) *Term { return c.cmp(OpBVSle, a, b) }

func (c *Ctx) Concat(hi, lo *Term) *Term {
	if hi.W == 0 || lo.W == 0 {
		if hi.W == 0 && lo.W == 0 {
			panic("concat of bools")
		}
		// allow zero-width pieces represented as nil? not supported
		panic("concat width 0")
	}
	w := hi.W + lo.W
	if hi.IsConst() && lo.IsConst() {
		if w <= 64 {
			return c.BV(w, hi.V<<uint(lo.W)|lo.V)
		}
		r := new(big.Int).Lsh(hi.constBig(), uint(lo.W))
		r.Or(r, lo.constBig())
		return c.BVBig(w, r)
	}
	// concat(extract(x,h,m+1), extract(x,m,l)) = extract(x,h,l)
	if hi.Op == OpExtract && lo.Op == OpExtract && hi.Args[0] == lo.Args[0] && hi.I2 == lo.I1+1 {
		return c.Extract(hi.Args[0], hi.I1, lo.I2)
	}
	// concat(0, x) -> zext
	if hi.IsConst() && hi.Big == nil && hi.V == 0 {
		return c.ZExt(lo, hi.W)
	}
	return c.mk(&Term{Op: OpConcat, W: w, Args: []*Term{hi, lo}})
}

func (c *Ctx) Extract(a *Term, hi, lo int) *Term {
	if hi < lo || hi >= a.W || lo < 0 {
		panic(fmt.Sprintf("bad extract [%d:%d] of width %d", hi, lo, a.W))
	}
	w := hi - lo + 1
	if w == a.W {
		return a
	}
	if a.IsConst() {
		if a.Big != nil {
			r := new(big.Int).Rsh(a.Big, uint(lo))
			return c.BVBig(w, r)
		}
		return c.BV(w, a.V>>uint(lo))
	}
	switch a.Op {
	case OpExtract:
		return c.Extract(a.Args[0], a.I2+hi, a.I2+lo)
	case OpConcat:
		l := a.Args[1]
		h := a.Args[0]
		if hi < l.W {
			return c.Extract(l, hi, lo)
		}
		if lo >= l.W {
			return c.Extract(h, hi-l.W, lo-l.W)
		}
		return c.Concat(c.Extract(h, hi-l.W, 0), c.Extract(l, l.W-1, lo))
	case OpZExt:
		x := a.Args[0]
		if hi < x.W {
			return c.Extract(x, hi, lo)
		}
		if lo >= x.W {
			return c.BV(w, 0)
		}
		return c.ZExt(c.Extract(x, x.W-1, lo), hi-x.W+1)
	case OpSExt:
		x := a.Args[0]
		if hi < x.W {
			return c.Extract(x, hi, lo)
		}
	case OpBVAnd, OpBVOr, OpBVXor:
		// push extract through bitwise ops when one side is constant (masks)
		if a.Args[1].IsConst() || a.Args[0].IsConst() {
			return c.bin(a.Op, c.Extract(a.Args[0], hi, lo), c.Extract(a.Args[1], hi, lo))
		}
	case OpIte:
		if a.Args[1].IsConst() || a.Args[2].IsConst() {
			return c.Ite(a.Args[0], c.Extract(a.Args[1], hi, lo), c.Extract(a.Args[2], hi, lo))
		}
	}
	return c.mk(&Term{Op: OpExtract, W: w, Args: []*Term{a}, I1: hi, I2: lo})
}

func (c *Ctx) ZExt(a *Term, extra int) *Term {
	if extra == 0 {
		return a
	}
	if a.IsConst() {
		if a.W+extra <= 64 {
			return c.BV(a.W+extra, a.V)
		}
		return c.BVBig(a.W+extra, a.constBig())
	}
	if a.Op == OpZExt {
		return c.ZExt(a.Args[0], extra+a.I1)
	}
	return c.mk(&Term{Op: OpZExt, W: a.W + extra, Args: []*Term{a}, I1: extra})
}

func (c *Ctx) SExt(a *Term, extra int) *Term {
	if extra == 0 {
		return a
	}
	if a.IsConst() {
		if a.W+extra <= 64 && a.Big == nil {
			return c.BV(a.W+extra, uint64(signed64(a.W, a.V)))
		}
		x := new(big.Int).Set(a.constBig())
		if x.Bit(a.W-1) == 1 {
			hi := new(big.Int).Lsh(bigMask(extra), uint(a.W))
			x.Or(x, hi)
		}
		return c.BVBig(a.W+extra, x)
	}
	if a.Op == OpZExt {
		return c.ZExt(a.Args[0], extra+a.I1)
	}
	if a.Op == OpSExt {
		return c.SExt(a.Args[0], extra+a.I1)
	}
	return c.mk(&Term{Op: OpSExt, W: a.W + extra, Args: []*Term{a}, I1: extra})
}

// Resize converts a to width w, sign- or zero-extending, or truncating.
func (c *Ctx) Resize(a *Term, w int, signed bool) *Term {
	switch {
	case a.W == w:
		return a
	case a.W > w:
		return c.Extract(a, w-1, 0)
	case signed:
		return c.SExt(a, w-a.W)
	default:
		return c.ZExt(a, w-a.W)
	}
}

func (c *Ctx) UF(name string, w int, args ...*Term) *Term {
	if _, ok := c.UFSigs[name]; !ok {
		sig := make([]int, 0, len(args)+1)
		for _, a := range args {
			sig = append(sig, a.W)
		}
		sig = append(sig, w)
		c.UFSigs[name] = sig
	}
	return c.mk(&Term{Op: OpUF, W: w, Name: name, Args: append([]*Term(nil), args...)})
}

func sortStr(w int) string {
	if w == 0 {
		return "Bool"
	}
	return fmt.Sprintf("(_ BitVec %d)", w)
}

func smtName(n string) string {
	// the "v!" prefix keeps input names apart from theory symbols (cvc5 rejects e.g. "sec")
	return "|v!" + strings.NewReplacer("|", "_", "\\", "_").Replace(n) + "|"
}

// shallow SMT-LIB text of t with children referenced by name tN.
func (t *Term) smtShallow() string {
	ref := func(a *Term) string { return a.ref() }
	switch t.Op {
	case OpConst:
		return t.ref()
	case OpVar:
		return smtName(t.Name)
	case OpExtract:
		return fmt.Sprintf("((_ extract %d %d) %s)", t.I1, t.I2, ref(t.Args[0]))
	case OpZExt:
		return fmt.Sprintf("((_ zero_extend %d) %s)", t.I1, ref(t.Args[0]))
	case OpSExt:
		return fmt.Sprintf("((_ sign_extend %d) %s)", t.I1, ref(t.Args[0]))
	case OpUF:
		var sb strings.Builder
		sb.WriteString("(" + smtName(t.Name))
		for _, a := range t.Args {
			sb.WriteString(" " + ref(a))
		}
		sb.WriteString(")")
		return sb.String()
	}
	var sb strings.Builder
	sb.WriteString("(" + opNames[t.Op])
	for _, a := range t.Args {
		sb.WriteString(" " + ref(a))
	}
	sb.WriteString(")")
	return sb.String()
}

// ref is how a term is referred to from other terms.
func (t *Term) ref() string {
	switch t.Op {
	case OpConst:
		if t.W == 0 {
			if t.V == 1 {
				return "true"
			}
			return "false"
		}
		if t.Big != nil {
			return fmt.Sprintf("(_ bv%s %d)", t.Big.String(), t.W)
		}
		return fmt.Sprintf("(_ bv%d %d)", t.V, t.W)
	case OpVar:
		return smtName(t.Name)
	}
	return fmt.Sprintf("t%d", t.ID)
}

// String renders the full term (for debugging; exponential on DAGs).
func (t *Term) String() string {
	return t.str(0)
}

func (t *Term) str(d int) string {
	if d > 6 {
		return "…"
	}
	switch t.Op {
	case OpConst:
		if t.W == 0 {
			return fmt.Sprint(t.V == 1)
		}
		if t.Big != nil {
			return "0x" + t.Big.Text(16)
		}
		return fmt.Sprintf("%d", t.V)
	case OpVar:
		return t.Name
	case OpExtract:
		return fmt.Sprintf("%s[%d:%d]", t.Args[0].str(d+1), t.I1, t.I2)
	case OpZExt:
		return fmt.Sprintf("zx%d(%s)", t.W, t.Args[0].str(d+1))
	case OpSExt:
		return fmt.Sprintf("sx%d(%s)", t.W, t.Args[0].str(d+1))
	}
	name := t.Name
	if t.Op != OpUF {
		name = opNames[t.Op]
	}
	parts := make([]string, len(t.Args))
	for i, a := range t.Args {
		parts[i] = a.str(d + 1)
	}
	return "(" + name + " " + strings.Join(parts, " ") + ")"
}

// Eval evaluates t under a model of variable values (missing vars = 0).
func (c *Ctx) Eval(t *Term, model map[string]*big.Int, ufs map[string]func([]*big.Int) *big.Int) *big.Int {
	memo := map[int]*big.Int{}
	var ev func(t *Term) *big.Int
	ev = func(t *Term) *big.Int {
		if r, ok := memo[t.ID]; ok {
			return r
		}
		var r *big.Int
		switch t.Op {
		case OpConst:
			r = t.constBig()
		case OpVar:
			if v, ok := model[t.Name]; ok {
				r = v
			} else {
				r = big.NewInt(0)
			}
		case OpUF:
			args := make([]*big.Int, len(t.Args))
			for i, a := range t.Args {
				args[i] = ev(a)
			}
			if f, ok := ufs[t.Name]; ok {
				r = f(args)
			} else {
				r = big.NewInt(0)
			}
		default:
			args := make([]*Term, len(t.Args))
			for i, a := range t.Args {
				v := ev(a)
				if a.W == 0 {
					args[i] = c.Bool(v.Sign() != 0)
				} else {
					args[i] = c.BVBig(a.W, v)
				}
			}
			var res *Term
			switch t.Op {
			case OpNot:
				res = c.Not(args[0])
			case OpAnd:
				res = c.And(args[0], args[1])
			case OpOr:
				res = c.Or(args[0], args[1])
			case OpEq:
				res = c.Eq(args[0], args[1])
			case OpIte:
				res = c.Ite(args[0], args[1], args[2])
			case OpBVNot:
				res = c.BNot(args[0])
			case OpBVNeg:
				res = c.Neg(args[0])
			case OpBVUlt, OpBVUle, OpBVSlt, OpBVSle:
				res = c.cmp(t.Op, args[0], args[1])
			case OpConcat:
				res = c.Concat(args[0], args[1])
			case OpExtract:
				res = c.Extract(args[0], t.I1, t.I2)
			case OpZExt:
				res = c.ZExt(args[0], t.I1)
			case OpSExt:
				res = c.SExt(args[0], t.I1)
			default:
				res = c.bin(t.Op, args[0], args[1])
			}
			if !res.IsConst() {
				panic("Eval: non-constant result for " + opNames[t.Op])
			}
			r = res.constBig()
		}
		memo[t.ID] = r
		return r
	}
	return ev(t)
}
