package sym

import (
	"fmt"
	"go/types"
	"math/big"
	"sort"
	"strings"

	"golang.org/x/tools/go/ssa"
)

type LabelStat struct {
	Reached    int `json:"reached"`
	Trivial    int `json:"trivial"`
	Discharged int `json:"discharged"`
	Failed     int `json:"failed"`
	Unknown    int `json:"unknown"`
	// obligations at a label that already had stored counterexamples and were not sent to the solver
	FailedNotSolved int `json:"failed_not_solved,omitempty"`
}

type Counterexample struct {
	Entry     string            `json:"entry"`
	Label     string            `json:"label"`
	Model     map[string]string `json:"model"`
	Bounds    map[string]int    `json:"bounds"`
	Witnesses []string          `json:"witnesses"` // names of witness predicates true in the model
	Known     string            `json:"known,omitempty"`
	Where     string            `json:"where"`
	Detail    string            `json:"detail,omitempty"`
	Replayed  string            `json:"replayed,omitempty"` // confirmed | not-reproduced | skipped
	ReplayFile string           `json:"replay_file,omitempty"`
}

type EntryResult struct {
	Entry       string                `json:"entry"`
	Bounds      map[string]int        `json:"bounds"`
	Paths       int                   `json:"paths"`
	Done        int                   `json:"done"`
	Panicked    int                   `json:"panicked"`
	Blocked     int                   `json:"blocked"`
	Infeasible  int                   `json:"infeasible"`
	Aborted     int                   `json:"aborted"`
	Aborts      []string              `json:"aborts,omitempty"`
	Obligations int                   `json:"obligations"`
	Discharged  int                   `json:"discharged"`
	Labels      map[string]*LabelStat `json:"labels"`
	Reach       map[string]int        `json:"reach"`
	CEX         []Counterexample      `json:"cex,omitempty"`
	SolverS     map[string]float64    `json:"solver_s"`
	Queries     int                   `json:"queries"`
	Steps       int                   `json:"steps"`
	States      int                   `json:"states"`
	Forks       int                   `json:"forks"`
	Terms       int                   `json:"terms"`
	UnknownFeas int                   `json:"unknown_feasibility"`
	Escalations int                   `json:"escalations"`
	Fns         []string              `json:"functions_encoded"`
	Witness     map[string]string     `json:"witness_model,omitempty"`
	WitnessObs  []string              `json:"witness_observations,omitempty"`
	Sample      string                `json:"sample_obligation,omitempty"`
	WallS       float64               `json:"wall_s"`
	SolverErrors []string             `json:"solver_errors,omitempty"`
	MaxDepth    int                   `json:"max_fork_depth"`
	// thorough tier: unsat verdicts re-derived by a second solver pipeline / second solver undecided / DISAGREEMENTS
	CrossChecked  int `json:"cross_checked,omitempty"`
	CrossUnknown  int `json:"cross_unknown,omitempty"`
	CrossDisagree int `json:"cross_disagree,omitempty"`
	// path prefixes handed to the other shards of a sharded instance
	OtherShards int `json:"other_shards,omitempty"`
	// states left unexplored because the entry already had >= 8 counterexamples stored (entry is red)
	StoppedAfterViolations int        `json:"stopped_after_violations,omitempty"`
}

func (r *EntryResult) label(l string) *LabelStat {
	s, ok := r.Labels[l]
	if !ok {
		s = &LabelStat{}
		r.Labels[l] = s
	}
	return s
}

// fail records an assertion failure unconditionally reachable under cond on this path.
func (ex *Exec) fail(st *State, label string, cond *Term) {
	ex.assert(st, ex.Ctx.Not(cond), label, "")
}

// assert checks that cond holds on every model of the path condition.
func (ex *Exec) assert(st *State, cond *Term, label string, detail string) {
	// labels of the form Cnn/... belong to one property; a run for another property skips them
	if len(ex.LabelPrefixes) > 0 && len(label) > 3 && label[0] == 'C' && label[3] == '/' {
		ok := false
		for _, p := range ex.LabelPrefixes {
			if strings.HasPrefix(label, p) {
				ok = true
			}
		}
		if !ok {
			return
		}
	}
	res := ex.Results
	ls := res.label(label)
	ls.Reached++
	res.Obligations++
	if v, ok := st.known(cond); ok && v {
		ls.Trivial++
		res.Discharged++
		return
	}
	neg := ex.Ctx.Not(cond)
	// a label that already has two unlisted counterexamples stored for native replay is going to be
	// reported as a violation anyway: do not spend solver time on further failures of the same label
	// (the condition is assumed from here on, exactly as after a stored counterexample)
	if ls.Failed >= 4 {
		n := 0
		for _, c := range res.CEX {
			if c.Label == label && c.Known == "" {
				n++
			}
		}
		if n >= 2 {
			ls.Failed++
			ls.FailedNotSolved++
			if cond.IsFalse() {
				st.status = Infeasible
				panic(abort{"stop", "assertion false on whole path"})
			}
			st.addPC(cond)
			return
		}
	}
	// sliced check first
	r := st.feasibleFinal(neg)
	if r == Unsat && ex.crossBudget() {
		// thorough tier: the verdict is re-derived by a different solver pipeline (diff of back ends)
		switch st.ex.crossCheck(append(st.slicePC(neg), neg)) {
		case Unsat:
			res.CrossChecked++
			ex.crossUnknownRun = 0
		case Unknown:
			res.CrossUnknown++
			// an entry whose obligations the second pipelines cannot decide (bit-twiddling under the integer
			// encoding) would spend its whole budget in time-outs: after 6 undecided in a row the rest of the
			// entry is not cross-checked (the count of undecided ones is in the evidence)
			ex.crossUnknownRun++
			if ex.crossUnknownRun >= 6 {
				ex.crossN = 400
			}
		case Sat:
			res.CrossDisagree++
			res.SolverErrors = append(res.SolverErrors, "solver disagreement (primary unsat, second solver sat) at "+label)
			r = Unknown
		}
	}
	if r == Unsat {
		ls.Discharged++
		res.Discharged++
		st.noteFact(cond, true)
		if res.Sample == "" && !cond.IsConst() {
			res.Sample = truncate(label+": "+ex.Ctx.Dump(append(st.slicePC(neg), neg)), 1500)
		}
		return
	}
	// full query for a model, excluding known-finding witnesses first
	known := ex.knownFor(label)
	var wit []string
	for k := range st.ghost {
		if strings.HasPrefix(k, "witness:") {
			wit = append(wit, strings.TrimPrefix(k, "witness:"))
		}
	}
	sort.Strings(wit)
	q := neg
	listed := map[string]bool{}
	for _, kf := range known {
		if kf.Witness == "" || kf.Witness == "*" {
			listed["*"] = true
			continue
		}
		if w, ok := st.ghost["witness:"+kf.Witness]; ok {
			listed[kf.Witness] = true
			q = ex.Ctx.And(q, ex.Ctx.Not(w.(*Term)))
		}
	}
	var rr Result
	var model map[string]*big.Int
	if !listed["*"] {
		rr, model = st.solveFull(q)
	} else {
		rr = Unsat
	}
	knownName := ""
	if rr == Unsat && len(listed) > 0 {
		// everything that fails here is a listed finding; get a model for the report
		rr, model = st.solveFull(neg)
		if rr == Sat {
			knownName = "listed"
		}
	}
	// CEGAR-lite for the uninterpreted multiplication: a model of the abstraction is only a candidate;
	// it is kept if the assertion is also false under the REAL meaning of mul64, otherwise that input
	// valuation is excluded and the solver is asked again (bounded), and the obligation ends inconclusive.
	if rr == Sat && ex.Spec != nil && ex.Spec.AbstractMul {
		tries := 0
		for rr == Sat && ex.Ctx.Eval(cond, model, realUFs).Sign() != 0 {
			tries++
			if tries > 12 {
				rr = Unknown
				break
			}
			block := ex.Ctx.False
			for _, in := range st.inputs {
				if v, ok := model[in.Term.Name]; ok {
					var k *Term
					if in.Term.W == 0 {
						k = ex.Ctx.Bool(v.Sign() != 0)
					} else {
						k = ex.Ctx.BVBig(in.Term.W, v)
					}
					block = ex.Ctx.Or(block, ex.Ctx.Not(ex.Ctx.Eq(in.Term, k)))
				}
			}
			q = ex.Ctx.And(q, block)
			rr, model = st.solveFull(q)
			res.Escalations++
		}
	}
	switch rr {
	case Unsat:
		ls.Discharged++
		res.Discharged++
		st.noteFact(cond, true)
		return
	case Unknown:
		ls.Unknown++
		st.addPC(cond)
		return
	}
	ls.Failed++
	cx := Counterexample{Entry: res.Entry, Label: label, Model: map[string]string{}, Bounds: ex.Bounds, Where: st.where(), Detail: detail}
	for k, v := range model {
		cx.Model[k] = v.String()
	}
	// which witness predicates hold in the model
	for _, w := range wit {
		t := st.ghost["witness:"+w].(*Term)
		if ex.Ctx.Eval(t, model, nil).Sign() != 0 {
			cx.Witnesses = append(cx.Witnesses, w)
		}
	}
	if knownName != "" {
		for _, kf := range known {
			if kf.Witness == "" || kf.Witness == "*" {
				cx.Known = kf.ID
			}
			for _, w := range cx.Witnesses {
				if w == kf.Witness {
					cx.Known = kf.ID
				}
			}
		}
		if cx.Known == "" {
			cx.Known = known[0].ID
		}
	}
	// keep at most a few counterexamples per label
	n := 0
	for _, c := range res.CEX {
		if c.Label == label && c.Known == cx.Known {
			n++
		}
	}
	if n < 2 {
		res.CEX = append(res.CEX, cx)
	}
	if cond.IsFalse() {
		st.status = Infeasible
		panic(abort{"stop", "assertion false on whole path"})
	}
	st.addPC(cond)
}

func truncate(s string, n int) string {
	if len(s) > n {
		return s[:n] + "…"
	}
	return s
}

// KnownFinding is an entry of known_findings.json.
type KnownFinding struct {
	ID          string `json:"id"`
	Property    string `json:"property"`
	Label       string `json:"label"`
	Witness     string `json:"witness"`
	Status      string `json:"status"` // known | fixed
	Commit      string `json:"commit,omitempty"`
	Description string `json:"description"`
}

var KnownFindings []KnownFinding

func (ex *Exec) knownFor(label string) []KnownFinding {
	var out []KnownFinding
	for _, k := range KnownFindings {
		if k.Status == "known" && k.Label == label {
			out = append(out, k)
		}
	}
	return out
}

func (st *State) freshName(base string) string {
	n := st.nameCnt[base]
	if n == 0 {
		return base
	}
	return fmt.Sprintf("%s#%d", base, n)
}

func (st *State) newInput(base string, w int, kind string) *Term {
	name := st.freshName(base)
	st.nameCnt[base]++
	t := st.ex.Ctx.Var(name, w)
	st.inputs = append(st.inputs, Input{Name: name, Term: t, Kind: kind})
	return t
}

func argStr(v Value) string {
	s, ok := v.(StrV)
	if !ok || !s.Conc {
		panic(abort{"internal", "harness function needs a constant string argument"})
	}
	return s.S
}

func (st *State) argInt(v Value) int {
	return int(st.constInt(v.(*Term), "harness int argument"))
}

var harnessWidths = map[string]int{
	"vU8": 8, "vU16": 16, "vU32": 32, "vU64": 64, "vI8": 8, "vI16": 16, "vI32": 32, "vI64": 64, "vInt": 64, "vUint": 64,
}

func (ex *Exec) harnessIntrinsic(f *ssa.Function) intrinsic {
	if f.Pkg == nil || f.Signature.Recv() != nil {
		return nil
	}
	name := f.Name()
	if len(name) < 2 || name[0] != 'v' || name[1] < 'A' || name[1] > 'Z' {
		return nil
	}
	if f.Pkg.Func("vAssert") == nil {
		return nil
	}
	c := ex.Ctx
	if w, ok := harnessWidths[name]; ok {
		return func(ex *Exec, st *State, args []Value, site ssa.CallInstruction) Value {
			return st.newInput(argStr(args[0]), w, name)
		}
	}
	switch name {
	case "vBool":
		return func(ex *Exec, st *State, args []Value, site ssa.CallInstruction) Value {
			t := st.newInput(argStr(args[0]), 1, name)
			return c.Eq(t, c.BV(1, 1))
		}
	case "vBytes", "vString":
		return func(ex *Exec, st *State, args []Value, site ssa.CallInstruction) Value {
			base := argStr(args[0])
			max := st.argInt(args[1])
			nm := st.freshName(base)
			st.nameCnt[base]++
			ln := c.Var(nm+".len", 64)
			st.inputs = append(st.inputs, Input{Name: nm + ".len", Term: ln, Kind: "len"})
			st.addPC(c.Ule(ln, ex.i64(int64(max))))
			cells := make([]*Term, max)
			arr := make(ArrayV, max)
			for i := range cells {
				cells[i] = c.Var(fmt.Sprintf("%s[%d]", nm, i), 8)
				arr[i] = cells[i]
				st.inputs = append(st.inputs, Input{Name: cells[i].Name, Term: cells[i], Kind: "cell"})
			}
			if name == "vString" {
				return StrV{Cells: cells, Len: ln}
			}
			id := st.alloc(arr, nil)
			return SliceV{Obj: id, Off: ex.i64(0), Len: ln, Cap: ln}
		}
	case "vBytesN", "vStringN":
		return func(ex *Exec, st *State, args []Value, site ssa.CallInstruction) Value {
			base := argStr(args[0])
			n := st.argInt(args[1])
			nm := st.freshName(base)
			st.nameCnt[base]++
			cells := make([]*Term, n)
			arr := make(ArrayV, n)
			for i := range cells {
				cells[i] = c.Var(fmt.Sprintf("%s[%d]", nm, i), 8)
				arr[i] = cells[i]
				st.inputs = append(st.inputs, Input{Name: cells[i].Name, Term: cells[i], Kind: "cell"})
			}
			ln := ex.i64(int64(n))
			if name == "vStringN" {
				return ex.mkStr(cells, ln)
			}
			id := st.alloc(arr, nil)
			return SliceV{Obj: id, Off: ex.i64(0), Len: ln, Cap: ln}
		}
	case "vChoose":
		return func(ex *Exec, st *State, args []Value, site ssa.CallInstruction) Value {
			base := argStr(args[0])
			n := st.argInt(args[1])
			if n <= 0 {
				panic(abort{"internal", "vChoose with n<=0"})
			}
			nm := st.freshName(base)
			v := c.Var(nm, 64)
			bound := c.Ult(v, ex.i64(int64(n)))
			if _, ok := st.conc[v.ID]; !ok {
				if k, isK := st.known(bound); !isK || !k {
					st.addPC(bound)
				}
			}
			r := st.concretize(v, n+1)
			st.nameCnt[base]++
			st.inputs = append(st.inputs, Input{Name: nm, Term: v, Kind: "vChoose"})
			return ex.i64(int64(r))
		}
	case "vConcrete":
		return func(ex *Exec, st *State, args []Value, site ssa.CallInstruction) Value {
			t := args[0].(*Term)
			return c.BV(t.W, st.concretize(t, ex.MaxConc))
		}
	case "vAssume":
		return func(ex *Exec, st *State, args []Value, site ssa.CallInstruction) Value {
			cond := args[0].(*Term)
			if v, ok := st.known(cond); ok {
				if !v {
					st.status = Infeasible
					panic(abort{"stop", "assumption false"})
				}
				return nil
			}
			if st.feasible(cond) == Unsat {
				st.status = Infeasible
				panic(abort{"stop", "assumption infeasible"})
			}
			st.addPC(cond)
			return nil
		}
	case "vAssert":
		return func(ex *Exec, st *State, args []Value, site ssa.CallInstruction) Value {
			ex.assert(st, args[0].(*Term), argStr(args[1]), "")
			return nil
		}
	case "vReach":
		return func(ex *Exec, st *State, args []Value, site ssa.CallInstruction) Value {
			ex.Results.Reach[argStr(args[0])]++
			return nil
		}
	case "vWitness":
		return func(ex *Exec, st *State, args []Value, site ssa.CallInstruction) Value {
			st.ghost["witness:"+argStr(args[0])] = args[1].(*Term)
			return nil
		}
	case "vObserve":
		return func(ex *Exec, st *State, args []Value, site ssa.CallInstruction) Value {
			st.observed = append(st.observed, Observation{Label: argStr(args[0]), Val: args[1]})
			return nil
		}
	case "vBound":
		return func(ex *Exec, st *State, args []Value, site ssa.CallInstruction) Value {
			n := argStr(args[0])
			v, ok := ex.Bounds[n]
			if !ok {
				panic(abort{"internal", "unknown bound " + n})
			}
			return ex.i64(int64(v))
		}
	case "vAnd":
		return func(ex *Exec, st *State, args []Value, site ssa.CallInstruction) Value {
			return c.And(args[0].(*Term), args[1].(*Term))
		}
	case "vOr":
		return func(ex *Exec, st *State, args []Value, site ssa.CallInstruction) Value {
			return c.Or(args[0].(*Term), args[1].(*Term))
		}
	case "vNot":
		return func(ex *Exec, st *State, args []Value, site ssa.CallInstruction) Value {
			return c.Not(args[0].(*Term))
		}
	case "vIte":
		return func(ex *Exec, st *State, args []Value, site ssa.CallInstruction) Value {
			return c.Ite(args[0].(*Term), args[1].(*Term), args[2].(*Term))
		}
	case "vSliceOfLen":
		return func(ex *Exec, st *State, args []Value, site ssa.CallInstruction) Value {
			n := args[0].(*Term)
			id := st.alloc(ArrayV{c.BV(8, 0)}, nil)
			return SliceV{Obj: id, Off: ex.i64(0), Len: n, Cap: n}
		}
	case "vChanPush":
		return func(ex *Exec, st *State, args []Value, site ssa.CallInstruction) Value {
			ch := args[0].(IfaceV).V.(ChanV)
			cd := *st.chanData(ch)
			v := args[1].(IfaceV).V
			cd.Buf = append(append([]Value(nil), cd.Buf...), v)
			st.writeChan(ch, &cd)
			return nil
		}
	case "vSymbolic":
		return func(ex *Exec, st *State, args []Value, site ssa.CallInstruction) Value {
			return c.True
		}
	case "vEventCount":
		return func(ex *Exec, st *State, args []Value, site ssa.CallInstruction) Value {
			k := argStr(args[0])
			n := 0
			for _, e := range st.events {
				if e.Kind == k || strings.HasPrefix(e.Kind, k) && strings.HasSuffix(k, ":") {
					n++
				}
			}
			return ex.i64(int64(n))
		}
	case "vRunPending":
		// runs every goroutine deferred by the spec's defer_go that has not run yet, oldest first
		return func(ex *Exec, st *State, args []Value, site ssa.CallInstruction) Value {
			if ex.runPendingGo(st) {
				return pushed{}
			}
			return nil
		}
	case "vPendingCount":
		return func(ex *Exec, st *State, args []Value, site ssa.CallInstruction) Value {
			return ex.i64(int64(len(st.pendingGo)))
		}
	case "vSentOn":
		return func(ex *Exec, st *State, args []Value, site ssa.CallInstruction) Value {
			ch := args[0].(IfaceV).V.(ChanV)
			n := 0
			for _, e := range st.events {
				if e.Kind == "send" && len(e.Args) > 0 {
					if c2, ok := e.Args[0].(ChanV); ok && c2.Obj == ch.Obj {
						n++
					}
				}
			}
			return ex.i64(int64(n))
		}
	case "vLastSent":
		// the value of the most recent send the goroutine under analysis performed on ch (nil interface if none)
		return func(ex *Exec, st *State, args []Value, site ssa.CallInstruction) Value {
			ch := args[0].(IfaceV).V.(ChanV)
			cd := st.chanData(ch)
			for i := len(st.events) - 1; i >= 0; i-- {
				e := st.events[i]
				if e.Kind == "send" && len(e.Args) > 1 {
					if c2, ok := e.Args[0].(ChanV); ok && c2.Obj == ch.Obj {
						return IfaceV{T: cd.Elem, V: e.Args[1]}
					}
				}
			}
			return IfaceV{}
		}
	case "vEvent":
		return func(ex *Exec, st *State, args []Value, site ssa.CallInstruction) Value {
			st.events = append(st.events, Event{Kind: argStr(args[0])})
			return nil
		}
	case "vEnvChan":
		return func(ex *Exec, st *State, args []Value, site ssa.CallInstruction) Value {
			iv := args[0].(IfaceV)
			ch := iv.V.(ChanV)
			cd := *st.chanData(ch)
			cd.Env = true
			st.writeChan(ch, &cd)
			return nil
		}
	case "vIsPanicking":
		return func(ex *Exec, st *State, args []Value, site ssa.CallInstruction) Value { return c.False }
	}
	return nil // ordinary harness helper: interpreted
}

// typeOfValue is used in diagnostics.
func typeName(t types.Type) string {
	if t == nil {
		return "nil"
	}
	return t.String()
}
