package sym

import (
	"fmt"
	"go/types"
	"math/big"
	"strings"
)

func (ex *Exec) initBig() { ex.initBigIntrinsics() }

func (ex *Exec) evalTerm(t *Term, m map[string]*big.Int) *big.Int {
	return ex.Ctx.Eval(t, m, realUFs)
}

// evalObs renders an observed value under a model in the canonical form the native vObserve prints.
func (ex *Exec) evalObs(st *State, v Value, m map[string]*big.Int) (out string) {
	defer func() {
		if r := recover(); r != nil {
			out = "?"
		}
	}()
	iv, ok := v.(IfaceV)
	if !ok {
		return "?"
	}
	if iv.T == nil {
		return "nil"
	}
	return ex.fmtObs(st, iv.T, iv.V, m)
}

func (ex *Exec) fmtObs(st *State, t types.Type, v Value, m map[string]*big.Int) string {
	switch x := v.(type) {
	case *Term:
		val := ex.evalTerm(x, m)
		if x.W == 0 {
			if val.Sign() != 0 {
				return "true"
			}
			return "false"
		}
		if _, signed, ok := intInfo(t); ok && signed {
			if val.Bit(x.W-1) == 1 {
				val = new(big.Int).Sub(val, new(big.Int).Lsh(big.NewInt(1), uint(x.W)))
			}
		}
		return val.String()
	case StrV:
		cells, ln := ex.strParts(x)
		n := int(ex.evalTerm(ln, m).Int64())
		b := make([]byte, n)
		for i := 0; i < n && i < len(cells); i++ {
			b[i] = byte(ex.evalTerm(cells[i], m).Uint64())
		}
		return fmt.Sprintf("%q", string(b))
	case SliceV:
		if x.Obj == 0 {
			return "[]nil"
		}
		n := int(ex.evalTerm(x.Len, m).Int64())
		off := int(ex.evalTerm(x.Off, m).Int64())
		arr := st.sliceArr(x)
		var sb strings.Builder
		sb.WriteString("[")
		et := t.Underlying().(*types.Slice).Elem()
		for i := 0; i < n; i++ {
			if i > 0 {
				sb.WriteString(" ")
			}
			sb.WriteString(ex.fmtObs(st, et, arr[off+i], m))
		}
		sb.WriteString("]")
		return sb.String()
	case ArrayV:
		var sb strings.Builder
		sb.WriteString("[")
		et := t.Underlying().(*types.Array).Elem()
		for i, e := range x {
			if i > 0 {
				sb.WriteString(" ")
			}
			sb.WriteString(ex.fmtObs(st, et, e, m))
		}
		sb.WriteString("]")
		return sb.String()
	case IfaceV:
		if x.T == nil {
			return "nil"
		}
		if types.Implements(x.T, errorIface) {
			return "err"
		}
		return ex.fmtObs(st, x.T, x.V, m)
	case Ptr:
		if x.IsNil() {
			return "nil"
		}
		return "ptr"
	}
	return "?"
}

// realUFs gives the abstracted functions their real meaning when a model is evaluated concretely.
var realUFs = map[string]func([]*big.Int) *big.Int{
	"mul64": func(a []*big.Int) *big.Int {
		r := new(big.Int).Mul(a[0], a[1])
		return r.And(r, new(big.Int).SetUint64(^uint64(0)))
	},
}

var errorIface = types.Universe.Lookup("error").Type().Underlying().(*types.Interface)
