package sym

import (
	"fmt"
	"go/types"
	"strings"

	"golang.org/x/tools/go/ssa"
)

// Value is a symbolic Go value. Concrete representations:
//
//	*Term    bool / integers / floats (bit pattern) / uintptr
//	Ptr      pointers and unsafe.Pointer
//	StructV  struct values
//	ArrayV   array values (also the content of slice backing objects)
//	SliceV   slice headers
//	StrV     strings
//	MapV, ChanV   references to heap objects
//	IfaceV   interface values
//	FuncV    function values / closures
//	TupleV   multi-value results
//	ReflV, RTypeV, BigV  intrinsic models
type Value interface{}

type Ptr struct {
	Obj  int    // 0 = nil
	Path []int  // immutable
	Sym  *Term  // optional symbolic index applied after Path (64 bit)
	RT   types.Type // non-nil: reinterpretation of bytes as this basic type (unsafe)
}

func (p Ptr) IsNil() bool { return p.Obj == 0 }

type StructV []Value
type ArrayV []Value
type TupleV []Value

type SliceV struct {
	Obj           int // 0 = nil slice
	Path          []int
	Off, Len, Cap *Term // 64-bit
}

// StrV is an immutable string: either concrete or cells+symbolic length.
type StrV struct {
	Conc  bool
	S     string
	Cells []*Term // 8-bit each; len(Cells) is the capacity bound
	Len   *Term   // 64-bit
}

type MapV struct{ Obj int }
type ChanV struct{ Obj int }

type IfaceV struct {
	T types.Type // nil = nil interface
	V Value
}

type FuncV struct {
	Fn      *ssa.Function
	Binds   []Value
	Builtin *ssa.Builtin
	// bound method closures created by intrinsics
	Native string
	Recv   Value
}

func (f FuncV) IsNil() bool { return f.Fn == nil && f.Builtin == nil && f.Native == "" }

// HObj is a heap object; treated as immutable once stored (copy on write).
type HObj struct {
	Val  Value
	Map  *MapData
	Chan *ChanData
	Typ  types.Type
}

type mapEntry struct {
	K, V Value
}

type MapData struct {
	Entries []mapEntry
	Index   map[string]int // concrete key hash -> entry index (only valid when AllConc)
	AllConc bool
}

type ChanData struct {
	Buf    []Value
	Cap    int
	Closed bool
	Env    bool // environment mode
	Name   string
	Elem   types.Type
}

func pathKey(p []int) string {
	var sb strings.Builder
	for _, i := range p {
		fmt.Fprintf(&sb, ".%d", i)
	}
	return sb.String()
}

func ptrKey(p Ptr) string {
	return fmt.Sprintf("%d%s", p.Obj, pathKey(p.Path))
}

func appendPath(p []int, i int) []int {
	n := make([]int, len(p)+1)
	copy(n, p)
	n[len(p)] = i
	return n
}

func samePath(a, b []int) bool {
	if len(a) != len(b) {
		return false
	}
	for i := range a {
		if a[i] != b[i] {
			return false
		}
	}
	return true
}

// abort is thrown (panic) for unsupported constructs; the state ends inconclusive.
type abort struct {
	kind string // unsupported | unwind | internal
	msg  string
}

func unsupported(format string, args ...interface{}) {
	panic(abort{"unsupported", fmt.Sprintf(format, args...)})
}

type forkReq struct{ cond *Term }
type concReq struct {
	t   *Term
	max int
}

// goPanic is thrown by instruction evaluation to start Go-level panicking.
type goPanic struct{ val Value }

func intInfo(t types.Type) (w int, signed bool, ok bool) {
	b, isB := t.Underlying().(*types.Basic)
	if !isB {
		if _, isP := t.Underlying().(*types.TypeParam); isP {
			return 0, false, false
		}
		return 0, false, false
	}
	switch b.Kind() {
	case types.Int8:
		return 8, true, true
	case types.Int16:
		return 16, true, true
	case types.Int32, types.UntypedRune:
		return 32, true, true
	case types.Int64, types.Int, types.UntypedInt:
		return 64, true, true
	case types.Uint8:
		return 8, false, true
	case types.Uint16:
		return 16, false, true
	case types.Uint32:
		return 32, false, true
	case types.Uint64, types.Uint, types.Uintptr:
		return 64, false, true
	}
	return 0, false, false
}

func isFloat(t types.Type) (w int, ok bool) {
	b, isB := t.Underlying().(*types.Basic)
	if !isB {
		return 0, false
	}
	switch b.Kind() {
	case types.Float32:
		return 32, true
	case types.Float64, types.UntypedFloat:
		return 64, true
	}
	return 0, false
}

func isString(t types.Type) bool {
	b, ok := t.Underlying().(*types.Basic)
	return ok && b.Info()&types.IsString != 0
}

func isBool(t types.Type) bool {
	b, ok := t.Underlying().(*types.Basic)
	return ok && b.Info()&types.IsBoolean != 0
}

func isNamed(t types.Type, pkg, name string) bool {
	n, ok := t.(*types.Named)
	if !ok {
		if a, ok2 := t.(*types.Alias); ok2 {
			return isNamed(types.Unalias(a), pkg, name)
		}
		return false
	}
	o := n.Obj()
	return o.Name() == name && o.Pkg() != nil && o.Pkg().Path() == pkg
}

func conStr(s string) StrV { return StrV{Conc: true, S: s} }

// nilSlice is the nil slice with well-formed (zero) header terms.
func (ex *Exec) nilSlice() SliceV {
	z := ex.Ctx.BV(64, 0)
	return SliceV{Off: z, Len: z, Cap: z}
}
