package sym

import (
	"go/token"
	"go/types"

	"golang.org/x/tools/go/ssa"
)

// If-conversion: a branch whose arms are small side-effect-free blocks that rejoin at one
// block (the SSA shape of a && b, a || b, and pure ?:-like diamonds) is evaluated on both
// arms and merged with ite instead of forking the state. Verdicts are unchanged; only the
// number of paths shrinks.

func pureInstr(in ssa.Instruction) bool {
	switch x := in.(type) {
	case *ssa.DebugRef:
		return true
	case *ssa.BinOp:
		switch x.Op {
		case token.QUO, token.REM:
			if _, ok := isFloat(x.X.Type()); ok {
				return false
			}
			c, ok := x.Y.(*ssa.Const)
			if !ok || c.Value == nil {
				return false
			}
			if v, ok2 := c.Value.(interface{ String() string }); ok2 && v.String() == "0" {
				return false
			}
			return true
		case token.SHL, token.SHR:
			_, signed, ok := intInfo(x.Y.Type())
			if !ok {
				return false
			}
			if signed {
				_, isC := x.Y.(*ssa.Const)
				return isC
			}
			return true
		}
		if _, ok := isFloat(x.X.Type()); ok {
			return false
		}
		// comparisons of interfaces may panic on uncomparable dynamic types; allow only basic/pointer/iface-with-nil
		switch x.X.Type().Underlying().(type) {
		case *types.Basic, *types.Pointer:
			return true
		case *types.Interface:
			_, c1 := x.X.(*ssa.Const)
			_, c2 := x.Y.(*ssa.Const)
			return c1 || c2
		case *types.Slice, *types.Map, *types.Chan, *types.Signature:
			return true // only comparable with nil
		}
		return false
	case *ssa.UnOp:
		return x.Op == token.NOT || x.Op == token.SUB || x.Op == token.XOR
	case *ssa.Convert:
		_, _, a := intInfo(x.X.Type())
		_, _, b := intInfo(x.Type())
		return a && b
	case *ssa.ChangeType, *ssa.Extract, *ssa.Field:
		return true
	}
	return false
}

func pureBlock(b *ssa.BasicBlock) bool {
	if len(b.Instrs) > 24 {
		return false
	}
	for i, in := range b.Instrs {
		if i == len(b.Instrs)-1 {
			switch in.(type) {
			case *ssa.Jump, *ssa.If:
				return true
			}
			return false
		}
		if !pureInstr(in) {
			return false
		}
	}
	return false
}

type icEdge struct {
	cond *Term
	from *ssa.BasicBlock
}

func (ex *Exec) ifConvert(st *State, fr *Frame, cond *Term) bool {
	c := ex.Ctx
	root := fr.Block
	var join *ssa.BasicBlock
	var edges []icEdge
	nblocks := 0
	ok := true
	var visit func(from *ssa.BasicBlock, to *ssa.BasicBlock, pc *Term)
	visit = func(from, to *ssa.BasicBlock, pc *Term) {
		if !ok {
			return
		}
		if len(to.Preds) == 1 && to != root && pureBlock(to) && nblocks < 8 {
			nblocks++
			// execute the pure instructions speculatively
			for _, in := range to.Instrs[:len(to.Instrs)-1] {
				if !ex.execPure(st, fr, in) {
					ok = false
					return
				}
			}
			switch t := to.Instrs[len(to.Instrs)-1].(type) {
			case *ssa.Jump:
				visit(to, to.Succs[0], pc)
			case *ssa.If:
				cv, isT := st.get(fr, t.Cond).(*Term)
				if !isT || to.Succs[0] == to.Succs[1] {
					ok = false
					return
				}
				visit(to, to.Succs[0], c.And(pc, cv))
				visit(to, to.Succs[1], c.And(pc, c.Not(cv)))
			}
			return
		}
		if join == nil {
			join = to
		} else if join != to {
			ok = false
			return
		}
		edges = append(edges, icEdge{pc, from})
	}
	if root.Succs[0] == root.Succs[1] {
		return false
	}
	visit(root, root.Succs[0], cond)
	visit(root, root.Succs[1], c.Not(cond))
	if !ok || join == nil || nblocks == 0 || len(edges) < 2 {
		return false
	}
	// each source block may appear once among the join's predecessors
	predIdx := map[*ssa.BasicBlock]int{}
	for i, p := range join.Preds {
		if _, dup := predIdx[p]; dup {
			return false
		}
		predIdx[p] = i
	}
	var vals []Value
	nphi := 0
	for _, in := range join.Instrs {
		phi, isPhi := in.(*ssa.Phi)
		if !isPhi {
			break
		}
		nphi++
		var res Value
		for i := len(edges) - 1; i >= 0; i-- {
			e := edges[i]
			pi, found := predIdx[e.from]
			if !found {
				return false
			}
			v := st.get(fr, phi.Edges[pi])
			if res == nil {
				res = v
				continue
			}
			vt, ok1 := v.(*Term)
			rt, ok2 := res.(*Term)
			if !ok1 || !ok2 || vt.W != rt.W {
				return false
			}
			res = c.Ite(e.cond, vt, rt)
		}
		vals = append(vals, res)
	}
	for i := 0; i < nphi; i++ {
		st.set(fr, join.Instrs[i].(*ssa.Phi), vals[i])
	}
	if fr.Visits == nil {
		fr.Visits = map[int]int{}
	}
	fr.Visits[join.Index]++
	if fr.Visits[join.Index] > ex.unwind() {
		panic(abort{"unwind", "loop bound exceeded in if-converted region"})
	}
	fr.Prev = edges[0].from
	fr.Block = join
	fr.IP = nphi
	ex.IfConverted++
	return true
}

// execPure evaluates a side-effect-free instruction; false if it turned out not to be pure here.
func (ex *Exec) execPure(st *State, fr *Frame, in ssa.Instruction) (ok bool) {
	defer func() {
		if r := recover(); r != nil {
			ok = false
		}
	}()
	switch x := in.(type) {
	case *ssa.DebugRef:
	case *ssa.BinOp:
		st.set(fr, x, ex.binop(st, x.Op, x.X.Type(), st.get(fr, x.X), st.get(fr, x.Y), x.Y.Type()))
	case *ssa.UnOp:
		st.set(fr, x, ex.unop(st, fr, x))
	case *ssa.Convert:
		st.set(fr, x, ex.convert(st, st.get(fr, x.X), x.X.Type(), x.Type()))
	case *ssa.ChangeType:
		st.set(fr, x, st.get(fr, x.X))
	case *ssa.Extract:
		st.set(fr, x, st.get(fr, x.Tuple).(TupleV)[x.Index])
	case *ssa.Field:
		st.set(fr, x, st.get(fr, x.X).(StructV)[x.Field])
	default:
		return false
	}
	return true
}
