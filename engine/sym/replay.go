package sym

import (
	"encoding/json"
	"fmt"
	"os"
	"os/exec"
	"path/filepath"
	"regexp"
	"sort"
	"strings"
	"time"
)

// pkgSub maps import path to harness sub-directory.
var pkgSub = map[string]string{
	"github.com/gocql/gocql":                  "gocql",
	"github.com/gocql/gocql/internal/streams": "streams",
	"github.com/gocql/gocql/internal/murmur":  "murmur",
	"github.com/gocql/gocql/internal/lru":     "lru",
	"github.com/gocql/gocql/lz4":              "lz4",
}

var subPkgName = map[string]string{"gocql": "gocql", "streams": "streams", "murmur": "murmur", "lru": "lru", "lz4": "lz4"}

type replayCase struct {
	ID     string            `json:"id"`
	Entry  string            `json:"entry"`
	Inputs map[string]string `json:"inputs"`
	Bounds map[string]int    `json:"bounds"`
}

type Replayer struct {
	repo, root, prop string
	tmp              string
	cases            map[string][]replayCase // by sub
	output           map[string]string       // case id -> native output
	entryPkg         map[string]string       // entry -> sub
	ran              bool
	nativeOK         map[string]bool // entry -> native replay possible
}

func NewReplayer(repo, root, prop string) *Replayer {
	tmp, _ := os.MkdirTemp("", "ssasym-replay-")
	return &Replayer{repo: repo, root: root, prop: prop, tmp: tmp, cases: map[string][]replayCase{}, output: map[string]string{}, entryPkg: map[string]string{}, nativeOK: map[string]bool{}}
}

func (r *Replayer) Cleanup() {
	if r.tmp != "" {
		os.RemoveAll(r.tmp)
	}
}

// allEntries reads every spec to build the native entry registry per package.
func (r *Replayer) allEntries() map[string][]string {
	res := map[string][]string{}
	files, _ := filepath.Glob(filepath.Join(r.root, "harness", "C*.json"))
	seen := map[string]bool{}
	for _, f := range files {
		psp, err := LoadSpec(f)
		if err != nil {
			continue
		}
		ps := *psp
		for _, e := range ps.Entries {
			sub := pkgSub[e.Pkg]
			if sub == "" || seen[sub+"/"+e.Name] {
				continue
			}
			seen[sub+"/"+e.Name] = true
			res[sub] = append(res[sub], e.Name)
			r.entryPkg[e.Name] = sub
			r.nativeOK[e.Name] = len(e.Stubs) == 0 && !e.EnvChans && len(e.Tags) == 0
		}
	}
	return res
}

var caseSeq int

func sanitize(s string) string {
	return regexp.MustCompile(`[^A-Za-z0-9_.-]+`).ReplaceAllString(s, "_")
}

// Prepare collects all counterexamples and witness models and runs them natively in one go test per package.
func (r *Replayer) Prepare(out *RunOutput) {
	entries := r.allEntries()
	dir := filepath.Join(r.root, "replays", r.prop)
	os.RemoveAll(dir)
	os.MkdirAll(dir, 0o755)
	for _, res := range out.Results {
		sub := r.entryPkg[res.Entry]
		for i := range res.CEX {
			cx := &res.CEX[i]
			caseSeq++
			id := fmt.Sprintf("%s-%s-%d", res.Entry, sanitize(cx.Label), caseSeq)
			rc := replayCase{ID: id, Entry: res.Entry, Inputs: cx.Model, Bounds: cx.Bounds}
			b, _ := json.MarshalIndent(map[string]interface{}{"cases": []replayCase{rc}, "label": cx.Label, "where": cx.Where, "detail": cx.Detail, "property": r.prop}, "", " ")
			cx.ReplayFile = filepath.Join(dir, id+".json")
			os.WriteFile(cx.ReplayFile, b, 0o644)
			if r.nativeOK[res.Entry] {
				r.cases[sub] = append(r.cases[sub], rc)
			}
		}
		if res.Witness != nil && r.nativeOK[res.Entry] && len(res.WitnessObs) > 0 {
			caseSeq++
			id := fmt.Sprintf("witness-%s-%d", res.Entry, caseSeq)
			r.cases[sub] = append(r.cases[sub], replayCase{ID: id, Entry: res.Entry, Inputs: res.Witness, Bounds: res.Bounds})
			res.Witness["__case"] = id
		}
	}
	for sub, cs := range r.cases {
		if len(cs) == 0 {
			continue
		}
		outp, err := r.runNative(sub, entries[sub], cs)
		if err != nil {
			fmt.Fprintf(os.Stderr, "ssasym: native replay in %s failed: %v\n%s\n", sub, err, truncate(outp, 3000))
		}
		r.splitOutput(outp)
	}
	r.ran = true
}

func (r *Replayer) splitOutput(outp string) {
	cur := ""
	var sb strings.Builder
	for _, line := range strings.Split(outp, "\n") {
		if strings.HasPrefix(line, "VCASE ") {
			cur = strings.TrimSpace(strings.TrimPrefix(line, "VCASE "))
			sb.Reset()
			continue
		}
		if strings.HasPrefix(line, "VEND ") {
			sb.WriteString(line + "\n")
			r.output[cur] = sb.String()
			cur = ""
			continue
		}
		if cur != "" {
			sb.WriteString(line + "\n")
		}
	}
	if cur != "" {
		r.output[cur] = sb.String() + "VEND crashed\n"
	}
}

// nativeFiles writes the generated support/registry/test files and returns the overlay map.
func (r *Replayer) nativeFiles(sub string, entries []string) (map[string]string, error) {
	rel := HarnessDirs[sub]
	ov := map[string]string{}
	files, _ := filepath.Glob(filepath.Join(r.root, "harness", sub, "*.go"))
	for _, f := range files {
		ov[filepath.Join(r.repo, rel, filepath.Base(f))] = f
	}
	gen := filepath.Join(r.tmp, sub)
	os.MkdirAll(gen, 0o755)
	sort.Strings(entries)
	var sb strings.Builder
	fmt.Fprintf(&sb, "package %s\n\nimport \"testing\"\n\nvar vEntries = map[string]func(){\n", subPkgName[sub])
	for _, e := range entries {
		fmt.Fprintf(&sb, "\t%q: %s,\n", e, e)
	}
	sb.WriteString("}\n\nfunc TestVerifReplay(t *testing.T) { vRunReplay(vEntries) }\n")
	reg := filepath.Join(gen, "zz_verif_registry_test.go")
	if err := os.WriteFile(reg, []byte(sb.String()), 0o644); err != nil {
		return nil, err
	}
	ov[filepath.Join(r.repo, rel, "zz_verif_registry_test.go")] = reg
	return ov, nil
}

func (r *Replayer) runNative(sub string, entries []string, cs []replayCase) (string, error) {
	ov, err := r.nativeFiles(sub, entries)
	if err != nil {
		return "", err
	}
	ovb, _ := json.Marshal(map[string]interface{}{"Replace": ov})
	ovf := filepath.Join(r.tmp, sub+"-overlay.json")
	os.WriteFile(ovf, ovb, 0o644)
	cb, _ := json.Marshal(map[string]interface{}{"cases": cs})
	cf := filepath.Join(r.tmp, sub+"-cases.json")
	os.WriteFile(cf, cb, 0o644)
	rel := HarnessDirs[sub]
	cmd := exec.Command("go", "test", "-v", "-vet=off", "-count=1", "-timeout=600s", "-run", "^TestVerifReplay$", "-overlay", ovf, ".")
	cmd.Dir = filepath.Join(r.repo, rel)
	cmd.Env = append(os.Environ(), "GOFLAGS=-mod=mod", "GOPROXY=off", "GOSUMDB=off", "GOTOOLCHAIN=local", "VERIF_REPLAY="+cf)
	done := make(chan struct{})
	var outb []byte
	var rerr error
	go func() { outb, rerr = cmd.CombinedOutput(); close(done) }()
	select {
	case <-done:
	case <-time.After(15 * time.Minute):
		cmd.Process.Kill()
		<-done
	}
	outp := string(outb)
	if rerr != nil && !strings.Contains(outp, "VCASE") {
		return outp, rerr
	}
	return outp, nil
}

// Confirm sets cx.Replayed from the native output.
func (r *Replayer) Confirm(cx *Counterexample) {
	if !r.nativeOK[cx.Entry] {
		cx.Replayed = "skipped (environment-mode harness: replayed by the engine's concrete interpretation only)"
		return
	}
	id := strings.TrimSuffix(filepath.Base(cx.ReplayFile), ".json")
	outp, ok := r.output[id]
	if !ok {
		cx.Replayed = "not-reproduced"
		cx.Detail += " [no native output]"
		return
	}
	want := "VFAIL " + cx.Label + "\n"
	switch {
	case cx.Label == "no-panic" && strings.Contains(outp, "VPANIC"):
		cx.Replayed = "confirmed"
	case cx.Label == "no-block" && strings.Contains(outp, "VTIMEOUT"):
		cx.Replayed = "confirmed"
	case strings.Contains(outp, want):
		cx.Replayed = "confirmed"
	case cx.Label == "alloc/proportional":
		// native run really allocates; confirmed if it panicked or printed the allocation marker
		if strings.Contains(outp, "VPANIC") || strings.Contains(outp, "VALLOC") {
			cx.Replayed = "confirmed"
		} else {
			cx.Replayed = "not-reproduced"
		}
	default:
		cx.Replayed = "not-reproduced"
		cx.Detail += " [native: " + truncate(strings.ReplaceAll(outp, "\n", " / "), 400) + "]"
	}
}

// ValidateWitness compares the engine's observations with the native ones for the witness model.
func (r *Replayer) ValidateWitness(res *EntryResult) (int, []string) {
	if res.Witness == nil {
		return 0, nil
	}
	id, ok := res.Witness["__case"]
	if !ok {
		return 0, nil
	}
	delete(res.Witness, "__case")
	outp, ok := r.output[id]
	if !ok {
		return 0, []string{"no native output for witness"}
	}
	var native []string
	for _, l := range strings.Split(outp, "\n") {
		if strings.HasPrefix(l, "VOBS ") {
			native = append(native, strings.TrimPrefix(l, "VOBS "))
		}
	}
	var bad []string
	if strings.Contains(outp, "VASSUME-FALSE") {
		bad = append(bad, "native run violates a harness assumption under the engine's witness model")
	}
	if len(native) != len(res.WitnessObs) {
		bad = append(bad, fmt.Sprintf("observation count differs: engine %d native %d (%s)", len(res.WitnessObs), len(native), truncate(strings.ReplaceAll(outp, "\n", " / "), 300)))
		return 0, bad
	}
	for i := range native {
		if native[i] != res.WitnessObs[i] {
			bad = append(bad, fmt.Sprintf("engine %s vs native %s", res.WitnessObs[i], native[i]))
		}
	}
	if len(bad) > 0 {
		return 0, bad
	}
	return 1, nil
}

// RunFile replays a stored counterexample file.
func (r *Replayer) RunFile(path string) (string, error) {
	b, err := os.ReadFile(path)
	if err != nil {
		return "", err
	}
	var f struct {
		Cases []replayCase `json:"cases"`
	}
	if err := json.Unmarshal(b, &f); err != nil {
		return "", err
	}
	entries := r.allEntries()
	if len(f.Cases) == 0 {
		return "", fmt.Errorf("no cases in %s", path)
	}
	sub := r.entryPkg[f.Cases[0].Entry]
	return r.runNative(sub, entries[sub], f.Cases)
}

// KnownDescription returns the description of a known finding id.
func KnownDescription(id string) string {
	for _, k := range KnownFindings {
		if k.ID == id {
			return k.ID + ": " + k.Description
		}
	}
	return id
}
