package sym

import (
	"math/big"

	"golang.org/x/tools/go/ssa"
)

// BigV (big.go) models math/big.Int in sign-magnitude form: Neg (bool term) and Mag (unsigned bigW-bit
// term), with Mag == 0 => !Neg. Magnitudes below 2^152 keep every modelled operation inside 160 bits.

const bigMaxBytes = 19

func (ex *Exec) bigZero() BigV { return BigV{Neg: ex.Ctx.False, Mag: ex.Ctx.BV(bigW, 0)} }

func (st *State) bigLoad(p Value) BigV {
	ptr := p.(Ptr)
	if ptr.IsNil() {
		st.ex.runtimePanic("invalid memory address or nil pointer dereference")
	}
	v := st.load(ptr)
	b, ok := v.(BigV)
	if !ok {
		panic(abort{"internal", "big.Int pointer does not point to a BigV"})
	}
	return b
}

func (st *State) bigStore(p Value, b BigV) Value {
	st.store(p.(Ptr), b)
	return p
}

// twos: the two's complement value of b in bigW bits
func (ex *Exec) bigTwos(b BigV) *Term {
	c := ex.Ctx
	return c.Ite(b.Neg, c.Neg(b.Mag), b.Mag)
}

func (ex *Exec) bigFromTwos(r *Term) BigV {
	c := ex.Ctx
	neg := c.Slt(r, c.BV(bigW, 0))
	return BigV{Neg: neg, Mag: c.Ite(neg, c.Neg(r), r)}
}

func (ex *Exec) bigConst(x *big.Int) BigV {
	return BigV{Neg: ex.Ctx.Bool(x.Sign() < 0), Mag: ex.Ctx.BVBig(bigW, new(big.Int).Abs(x))}
}

func (ex *Exec) bigIsConst(b BigV) bool { return b.Neg.IsConst() && b.Mag.IsConst() }

func (ex *Exec) bigToGo(b BigV) *big.Int {
	v := new(big.Int).Set(b.Mag.constBig())
	if b.Neg.IsTrue() {
		v.Neg(v)
	}
	return v
}

// bigBitLen: bit length of the magnitude as a 64-bit term
func (ex *Exec) bigBitLen(b BigV) *Term {
	c := ex.Ctx
	if b.Mag.IsConst() {
		return ex.i64(int64(b.Mag.constBig().BitLen()))
	}
	res := ex.i64(0)
	for i := 0; i < bigW; i++ {
		bit := c.Extract(b.Mag, i, i)
		if bit.IsConst() {
			if bit.V == 1 {
				res = ex.i64(int64(i + 1))
			}
			continue
		}
		res = c.Ite(c.Eq(bit, c.BV(1, 1)), ex.i64(int64(i+1)), res)
	}
	return res
}

func (ex *Exec) initBigIntrinsics() {
	c := ex.Ctx
	in := ex.intrinsics
	newBig := func(st *State, b BigV) Value {
		bt := ex.Prog.ImportedPackage("math/big").Type("Int").Type()
		id := st.alloc(b, bt)
		return Ptr{Obj: id}
	}
	fromInt64 := func(x *Term) BigV { return ex.bigFromTwos(c.SExt(x, bigW-64)) }
	in["math/big.NewInt"] = func(ex *Exec, st *State, args []Value, site ssa.CallInstruction) Value {
		return newBig(st, fromInt64(args[0].(*Term)))
	}
	in["(*math/big.Int).Set"] = func(ex *Exec, st *State, args []Value, site ssa.CallInstruction) Value {
		return st.bigStore(args[0], st.bigLoad(args[1]))
	}
	in["(*math/big.Int).SetInt64"] = func(ex *Exec, st *State, args []Value, site ssa.CallInstruction) Value {
		return st.bigStore(args[0], fromInt64(args[1].(*Term)))
	}
	in["(*math/big.Int).SetUint64"] = func(ex *Exec, st *State, args []Value, site ssa.CallInstruction) Value {
		return st.bigStore(args[0], BigV{Neg: c.False, Mag: c.ZExt(args[1].(*Term), bigW-64)})
	}
	in["(*math/big.Int).SetBytes"] = func(ex *Exec, st *State, args []Value, site ssa.CallInstruction) Value {
		s := st.simpSlice(args[1].(SliceV))
		if s.Obj == 0 {
			return st.bigStore(args[0], ex.bigZero())
		}
		if !st.decide(c.Sle(s.Len, ex.i64(bigMaxBytes))) {
			unsupported("big.Int.SetBytes with more than %d bytes is outside the 160-bit model", bigMaxBytes)
		}
		n := st.ubLen(s, s.Len)
		if n > bigMaxBytes {
			n = bigMaxBytes
		}
		cells := st.termCells(s, n)
		v := c.BV(bigW, 0)
		for i, cell := range cells {
			nv := c.BOr(c.Shl(v, c.BV(bigW, 8)), c.ZExt(cell, bigW-8))
			v = c.Ite(c.Slt(ex.i64(int64(i)), s.Len), nv, v)
		}
		return st.bigStore(args[0], BigV{Neg: c.False, Mag: v})
	}
	in["(*math/big.Int).Bytes"] = func(ex *Exec, st *State, args []Value, site ssa.CallInstruction) Value {
		b := st.bigLoad(args[0])
		bl := ex.bigBitLen(b)
		nb := c.LShr(c.Add(bl, ex.i64(7)), ex.i64(3))
		n := int(st.concretize(nb, bigW/8+1))
		vals := make([]Value, n)
		for i := 0; i < n; i++ {
			lo := (n - 1 - i) * 8
			vals[i] = c.Extract(b.Mag, lo+7, lo)
		}
		return st.sliceFromValues(nil, vals)
	}
	in["(*math/big.Int).Sign"] = func(ex *Exec, st *State, args []Value, site ssa.CallInstruction) Value {
		b := st.bigLoad(args[0])
		return c.Ite(b.Neg, ex.i64(-1), c.Ite(c.Eq(b.Mag, c.BV(bigW, 0)), ex.i64(0), ex.i64(1)))
	}
	in["(*math/big.Int).BitLen"] = func(ex *Exec, st *State, args []Value, site ssa.CallInstruction) Value {
		// fork on the bit length: shifts and byte counts derived from it stay concrete
		bl := ex.bigBitLen(st.bigLoad(args[0]))
		return ex.i64(int64(st.concretize(bl, bigW+1)))
	}
	addsub := func(sub bool) intrinsic {
		return func(ex *Exec, st *State, args []Value, site ssa.CallInstruction) Value {
			a, b := st.bigLoad(args[1]), st.bigLoad(args[2])
			if ex.bigIsConst(a) && ex.bigIsConst(b) {
				r := new(big.Int)
				if sub {
					r.Sub(ex.bigToGo(a), ex.bigToGo(b))
				} else {
					r.Add(ex.bigToGo(a), ex.bigToGo(b))
				}
				return st.bigStore(args[0], ex.bigConst(r))
			}
			ta, tb := ex.bigTwos(a), ex.bigTwos(b)
			if sub {
				return st.bigStore(args[0], ex.bigFromTwos(c.Sub(ta, tb)))
			}
			return st.bigStore(args[0], ex.bigFromTwos(c.Add(ta, tb)))
		}
	}
	in["(*math/big.Int).Add"] = addsub(false)
	in["(*math/big.Int).Sub"] = addsub(true)
	in["(*math/big.Int).Mul"] = func(ex *Exec, st *State, args []Value, site ssa.CallInstruction) Value {
		a, b := st.bigLoad(args[1]), st.bigLoad(args[2])
		if !(ex.bigIsConst(a) && ex.bigIsConst(b)) {
			unsupported("big.Int.Mul of symbolic values")
		}
		return st.bigStore(args[0], ex.bigConst(new(big.Int).Mul(ex.bigToGo(a), ex.bigToGo(b))))
	}
	in["(*math/big.Int).Neg"] = func(ex *Exec, st *State, args []Value, site ssa.CallInstruction) Value {
		b := st.bigLoad(args[1])
		return st.bigStore(args[0], BigV{Neg: c.And(c.Not(b.Neg), c.Not(c.Eq(b.Mag, c.BV(bigW, 0)))), Mag: b.Mag})
	}
	in["(*math/big.Int).Abs"] = func(ex *Exec, st *State, args []Value, site ssa.CallInstruction) Value {
		b := st.bigLoad(args[1])
		return st.bigStore(args[0], BigV{Neg: c.False, Mag: b.Mag})
	}
	in["(*math/big.Int).Lsh"] = func(ex *Exec, st *State, args []Value, site ssa.CallInstruction) Value {
		b := st.bigLoad(args[1])
		n := st.simp(args[2].(*Term))
		if !st.decide(c.Ule(n, ex.i64(8*bigMaxBytes))) {
			unsupported("big.Int.Lsh by more than %d bits is outside the 160-bit model", 8*bigMaxBytes)
		}
		return st.bigStore(args[0], BigV{Neg: b.Neg, Mag: c.Shl(b.Mag, c.ZExt(n, bigW-64))})
	}
	in["(*math/big.Int).Rsh"] = func(ex *Exec, st *State, args []Value, site ssa.CallInstruction) Value {
		b := st.bigLoad(args[1])
		n := args[2].(*Term)
		return st.bigStore(args[0], ex.bigFromTwos(c.AShr(ex.bigTwos(b), c.ZExt(n, bigW-64))))
	}
	in["(*math/big.Int).Cmp"] = func(ex *Exec, st *State, args []Value, site ssa.CallInstruction) Value {
		a, b := ex.bigTwos(st.bigLoad(args[0])), ex.bigTwos(st.bigLoad(args[1]))
		return c.Ite(c.Slt(a, b), ex.i64(-1), c.Ite(c.Eq(a, b), ex.i64(0), ex.i64(1)))
	}
	in["(*math/big.Int).Int64"] = func(ex *Exec, st *State, args []Value, site ssa.CallInstruction) Value {
		return c.Extract(ex.bigTwos(st.bigLoad(args[0])), 63, 0)
	}
	in["(*math/big.Int).Uint64"] = func(ex *Exec, st *State, args []Value, site ssa.CallInstruction) Value {
		return c.Extract(st.bigLoad(args[0]).Mag, 63, 0)
	}
	in["(*math/big.Int).IsInt64"] = func(ex *Exec, st *State, args []Value, site ssa.CallInstruction) Value {
		t := ex.bigTwos(st.bigLoad(args[0]))
		return c.Eq(c.SExt(c.Extract(t, 63, 0), bigW-64), t)
	}
	in["(*math/big.Int).IsUint64"] = func(ex *Exec, st *State, args []Value, site ssa.CallInstruction) Value {
		b := st.bigLoad(args[0])
		return c.And(c.Not(b.Neg), c.Eq(c.ZExt(c.Extract(b.Mag, 63, 0), bigW-64), b.Mag))
	}
	in["(*math/big.Int).String"] = func(ex *Exec, st *State, args []Value, site ssa.CallInstruction) Value {
		if p := args[0].(Ptr); p.IsNil() {
			return conStr("<nil>")
		}
		b := st.bigLoad(args[0])
		if !ex.bigIsConst(b) {
			return conStr("‹big›")
		}
		return conStr(ex.bigToGo(b).String())
	}
	in["(*math/big.Int).SetString"] = func(ex *Exec, st *State, args []Value, site ssa.CallInstruction) Value {
		s := args[1].(StrV)
		base := args[2].(*Term)
		if !s.Conc || !base.IsConst() {
			unsupported("big.Int.SetString on symbolic string")
		}
		v, ok := new(big.Int).SetString(s.S, int(base.V))
		if !ok {
			return TupleV{Ptr{}, c.False}
		}
		if v.BitLen() > 8*bigMaxBytes {
			unsupported("big.Int.SetString value beyond the 160-bit model")
		}
		st.bigStore(args[0], ex.bigConst(v))
		return TupleV{args[0], c.True}
	}
	in["(*math/big.Int).Exp"] = func(ex *Exec, st *State, args []Value, site ssa.CallInstruction) Value {
		x, y := st.bigLoad(args[1]), st.bigLoad(args[2])
		var m *big.Int
		if p := args[3].(Ptr); !p.IsNil() {
			mt := st.bigLoad(args[3])
			if !ex.bigIsConst(mt) {
				unsupported("big.Int.Exp with symbolic modulus")
			}
			m = ex.bigToGo(mt)
		}
		if !ex.bigIsConst(x) || !ex.bigIsConst(y) {
			unsupported("big.Int.Exp of symbolic values")
		}
		r := new(big.Int).Exp(ex.bigToGo(x), ex.bigToGo(y), m)
		if r.BitLen() > 8*bigMaxBytes {
			unsupported("big.Int.Exp result beyond the 160-bit model")
		}
		return st.bigStore(args[0], ex.bigConst(r))
	}
}
