package sym

import (
	"math/big"

	"golang.org/x/tools/go/ssa"
)

const bigMaxBytes = 23 // magnitudes below 2^184 keep every modelled operation inside 192 signed bits

func (st *State) bigLoad(p Value) *Term {
	ptr := p.(Ptr)
	if ptr.IsNil() {
		st.ex.runtimePanic("invalid memory address or nil pointer dereference")
	}
	v := st.load(ptr)
	b, ok := v.(BigV)
	if !ok {
		panic(abort{"internal", "big.Int pointer does not point to a BigV"})
	}
	return b.T
}

func (st *State) bigStore(p Value, t *Term) Value {
	st.store(p.(Ptr), BigV{T: t})
	return p
}

func (ex *Exec) bigConst(x *big.Int) *Term {
	if x.Sign() >= 0 {
		return ex.Ctx.BVBig(bigW, x)
	}
	m := new(big.Int).Lsh(big.NewInt(1), bigW)
	return ex.Ctx.BVBig(bigW, m.Add(m, x))
}

func (ex *Exec) bigToGo(t *Term) *big.Int {
	v := new(big.Int).Set(t.constBig())
	if v.Bit(bigW-1) == 1 {
		v.Sub(v, new(big.Int).Lsh(big.NewInt(1), bigW))
	}
	return v
}

func (ex *Exec) bigAbs(t *Term) *Term {
	c := ex.Ctx
	neg := c.Slt(t, c.BV(bigW, 0))
	return c.Ite(neg, c.Neg(t), t)
}

func (ex *Exec) bigNeg(t *Term) *Term {
	c := ex.Ctx
	if t.IsConst() {
		return ex.bigConst(new(big.Int).Neg(ex.bigToGo(t)))
	}
	return c.Sub(c.BV(bigW, 0), t)
}

// bigBitLen returns the bit length of |t| as a 64-bit term.
func (ex *Exec) bigBitLen(t *Term) *Term {
	c := ex.Ctx
	a := ex.bigAbs(t)
	if a.IsConst() {
		return ex.i64(int64(a.constBig().BitLen()))
	}
	res := ex.i64(0)
	for i := 0; i < bigW; i++ {
		bit := c.Eq(c.Extract(a, i, i), c.BV(1, 1))
		res = c.Ite(bit, ex.i64(int64(i+1)), res)
	}
	return res
}

func (ex *Exec) initBigIntrinsics() {
	c := ex.Ctx
	in := ex.intrinsics
	zero := func() *Term { return c.BV(bigW, 0) }
	newBig := func(st *State, t *Term) Value {
		bt := ex.Prog.ImportedPackage("math/big").Type("Int").Type()
		id := st.alloc(BigV{T: t}, bt)
		return Ptr{Obj: id}
	}
	in["math/big.NewInt"] = func(ex *Exec, st *State, args []Value, site ssa.CallInstruction) Value {
		return newBig(st, c.SExt(args[0].(*Term), bigW-64))
	}
	in["(*math/big.Int).Set"] = func(ex *Exec, st *State, args []Value, site ssa.CallInstruction) Value {
		return st.bigStore(args[0], st.bigLoad(args[1]))
	}
	in["(*math/big.Int).SetInt64"] = func(ex *Exec, st *State, args []Value, site ssa.CallInstruction) Value {
		return st.bigStore(args[0], c.SExt(args[1].(*Term), bigW-64))
	}
	in["(*math/big.Int).SetUint64"] = func(ex *Exec, st *State, args []Value, site ssa.CallInstruction) Value {
		return st.bigStore(args[0], c.ZExt(args[1].(*Term), bigW-64))
	}
	in["(*math/big.Int).SetBytes"] = func(ex *Exec, st *State, args []Value, site ssa.CallInstruction) Value {
		s := args[1].(SliceV)
		if s.Obj == 0 {
			return st.bigStore(args[0], zero())
		}
		if !st.decide(c.Sle(s.Len, ex.i64(bigMaxBytes))) {
			unsupported("big.Int.SetBytes with more than %d bytes is outside the 192-bit model", bigMaxBytes)
		}
		n := st.ubLen(s, s.Len)
		if n > bigMaxBytes {
			n = bigMaxBytes
		}
		cells := st.termCells(s, n)
		v := zero()
		for i, cell := range cells {
			nv := c.BOr(c.Shl(v, c.BV(bigW, 8)), c.ZExt(cell, bigW-8))
			v = c.Ite(c.Slt(ex.i64(int64(i)), s.Len), nv, v)
		}
		return st.bigStore(args[0], v)
	}
	in["(*math/big.Int).Bytes"] = func(ex *Exec, st *State, args []Value, site ssa.CallInstruction) Value {
		t := st.bigLoad(args[0])
		a := ex.bigAbs(t)
		bl := ex.bigBitLen(t)
		nb := c.LShr(c.Add(bl, ex.i64(7)), ex.i64(3))
		n := int(st.concretize(nb, bigW/8+1))
		vals := make([]Value, n)
		for i := 0; i < n; i++ {
			lo := (n - 1 - i) * 8
			vals[i] = c.Extract(a, lo+7, lo)
		}
		return st.sliceFromValues(nil, vals)
	}
	in["(*math/big.Int).Sign"] = func(ex *Exec, st *State, args []Value, site ssa.CallInstruction) Value {
		t := st.bigLoad(args[0])
		return c.Ite(c.Slt(t, zero()), ex.i64(-1), c.Ite(c.Eq(t, zero()), ex.i64(0), ex.i64(1)))
	}
	in["(*math/big.Int).BitLen"] = func(ex *Exec, st *State, args []Value, site ssa.CallInstruction) Value {
		return ex.bigBitLen(st.bigLoad(args[0]))
	}
	bin := func(f func(a, b *Term) *Term) intrinsic {
		return func(ex *Exec, st *State, args []Value, site ssa.CallInstruction) Value {
			return st.bigStore(args[0], f(st.bigLoad(args[1]), st.bigLoad(args[2])))
		}
	}
	in["(*math/big.Int).Add"] = bin(func(a, b *Term) *Term { return c.Add(a, b) })
	in["(*math/big.Int).Sub"] = bin(func(a, b *Term) *Term { return c.Sub(a, b) })
	in["(*math/big.Int).Mul"] = bin(func(a, b *Term) *Term {
		if !(a.IsConst() && b.IsConst()) {
			unsupported("big.Int.Mul of symbolic values")
		}
		return ex.bigConst(new(big.Int).Mul(ex.bigToGo(a), ex.bigToGo(b)))
	})
	in["(*math/big.Int).Neg"] = func(ex *Exec, st *State, args []Value, site ssa.CallInstruction) Value {
		return st.bigStore(args[0], ex.bigNeg(st.bigLoad(args[1])))
	}
	in["(*math/big.Int).Abs"] = func(ex *Exec, st *State, args []Value, site ssa.CallInstruction) Value {
		return st.bigStore(args[0], ex.bigAbs(st.bigLoad(args[1])))
	}
	in["(*math/big.Int).Lsh"] = func(ex *Exec, st *State, args []Value, site ssa.CallInstruction) Value {
		x := st.bigLoad(args[1])
		n := args[2].(*Term)
		if !st.decide(c.Ule(n, ex.i64(8*bigMaxBytes))) {
			unsupported("big.Int.Lsh by more than %d bits is outside the 192-bit model", 8*bigMaxBytes)
		}
		return st.bigStore(args[0], c.Shl(x, c.ZExt(n, bigW-64)))
	}
	in["(*math/big.Int).Rsh"] = func(ex *Exec, st *State, args []Value, site ssa.CallInstruction) Value {
		x := st.bigLoad(args[1])
		n := args[2].(*Term)
		return st.bigStore(args[0], c.AShr(x, c.ZExt(n, bigW-64)))
	}
	in["(*math/big.Int).Cmp"] = func(ex *Exec, st *State, args []Value, site ssa.CallInstruction) Value {
		a, b := st.bigLoad(args[0]), st.bigLoad(args[1])
		return c.Ite(c.Slt(a, b), ex.i64(-1), c.Ite(c.Eq(a, b), ex.i64(0), ex.i64(1)))
	}
	in["(*math/big.Int).Int64"] = func(ex *Exec, st *State, args []Value, site ssa.CallInstruction) Value {
		return c.Extract(st.bigLoad(args[0]), 63, 0)
	}
	in["(*math/big.Int).Uint64"] = func(ex *Exec, st *State, args []Value, site ssa.CallInstruction) Value {
		return c.Extract(ex.bigAbs(st.bigLoad(args[0])), 63, 0)
	}
	in["(*math/big.Int).IsInt64"] = func(ex *Exec, st *State, args []Value, site ssa.CallInstruction) Value {
		t := st.bigLoad(args[0])
		return c.Eq(c.SExt(c.Extract(t, 63, 0), bigW-64), t)
	}
	in["(*math/big.Int).IsUint64"] = func(ex *Exec, st *State, args []Value, site ssa.CallInstruction) Value {
		t := st.bigLoad(args[0])
		return c.Eq(c.ZExt(c.Extract(t, 63, 0), bigW-64), t)
	}
	in["(*math/big.Int).String"] = func(ex *Exec, st *State, args []Value, site ssa.CallInstruction) Value {
		if p := args[0].(Ptr); p.IsNil() {
			return conStr("<nil>")
		}
		t := st.bigLoad(args[0])
		if !t.IsConst() {
			return conStr("‹big›")
		}
		return conStr(ex.bigToGo(t).String())
	}
	in["(*math/big.Int).SetString"] = func(ex *Exec, st *State, args []Value, site ssa.CallInstruction) Value {
		s := args[1].(StrV)
		base := args[2].(*Term)
		if !s.Conc || !base.IsConst() {
			unsupported("big.Int.SetString on symbolic string")
		}
		v, ok := new(big.Int).SetString(s.S, int(base.V))
		if !ok {
			return TupleV{Ptr{}, c.False}
		}
		if v.BitLen() > 8*bigMaxBytes {
			unsupported("big.Int.SetString value beyond the 192-bit model")
		}
		st.bigStore(args[0], ex.bigConst(v))
		return TupleV{args[0], c.True}
	}
	in["(*math/big.Int).Exp"] = func(ex *Exec, st *State, args []Value, site ssa.CallInstruction) Value {
		x, y := st.bigLoad(args[1]), st.bigLoad(args[2])
		var m *big.Int
		if p := args[3].(Ptr); !p.IsNil() {
			mt := st.bigLoad(args[3])
			if !mt.IsConst() {
				unsupported("big.Int.Exp with symbolic modulus")
			}
			m = ex.bigToGo(mt)
		}
		if !x.IsConst() || !y.IsConst() {
			unsupported("big.Int.Exp of symbolic values")
		}
		r := new(big.Int).Exp(ex.bigToGo(x), ex.bigToGo(y), m)
		if r.BitLen() > 8*bigMaxBytes {
			unsupported("big.Int.Exp result beyond the 192-bit model")
		}
		return st.bigStore(args[0], ex.bigConst(r))
	}
}
