package sym

func (ex *Exec) initBigIntrinsics() {}
