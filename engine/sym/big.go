package sym

// BigV models math/big.Int as a signed bit-vector of bigW bits.
type BigV struct{ T *Term }

const bigW = 192
