package sym

// BigV models math/big.Int in sign-magnitude form (see bigint.go).
type BigV struct {
	Neg *Term // bool
	Mag *Term // unsigned, bigW bits
}

const bigW = 160
