package sym

import (
	"fmt"
	"go/types"

	"golang.org/x/tools/go/ssa"
)

func (st *State) chanData(ch ChanV) *ChanData {
	o := st.obj(ch.Obj)
	if o.Chan == nil {
		panic(abort{"internal", "not a channel object"})
	}
	return o.Chan
}

func (st *State) writeChan(ch ChanV, cd *ChanData) {
	o := *st.obj(ch.Obj)
	o.Chan = cd
	st.heap[ch.Obj] = &o
}

func (st *State) block(why string) {
	if st.ex.runPendingGo(st) {
		panic(yieldReq{}) // other goroutines of the model get to run before this one is declared stuck
	}
	st.status = Blocked
	st.abortM = why + st.where()
	panic(abort{"stop", "blocked"})
}

// choose returns an index in [0,n) chosen by the environment (forks).
func (st *State) choose(name string, n int) int {
	if n <= 1 {
		return 0
	}
	c := st.ex.Ctx
	cnt := st.nameCnt["#"+name]
	v := c.Var(fmt.Sprintf("%s#%d", name, cnt), 8)
	if _, ok := st.conc[v.ID]; !ok {
		if _, known := st.facts[c.Ult(v, c.BV(8, uint64(n))).ID]; !known {
			st.addPC(c.Ult(v, c.BV(8, uint64(n))))
		}
	}
	r := int(st.concretize(v, n+1))
	st.nameCnt["#"+name] = cnt + 1
	st.inputs = append(st.inputs, Input{Name: v.Name, Term: v, Kind: "choose"})
	return r
}

func (ex *Exec) closeChan(st *State, ch ChanV) {
	if ch.Obj == 0 {
		ex.runtimePanic("close of nil channel")
	}
	cd := *st.chanData(ch)
	if cd.Closed {
		ex.runtimePanic("close of closed channel")
	}
	cd.Closed = true
	st.writeChan(ch, &cd)
	st.events = append(st.events, Event{Kind: "close", Args: []Value{ch}})
}

// canRecv / canSend in local mode.
func (cd *ChanData) canRecv() bool { return len(cd.Buf) > 0 || cd.Closed }
func (cd *ChanData) canSend() bool { return cd.Closed || len(cd.Buf) < cd.Cap }

func (ex *Exec) doRecv(st *State, ch ChanV, elem types.Type) (Value, bool) {
	cd := *st.chanData(ch)
	if len(cd.Buf) > 0 {
		v := cd.Buf[0]
		cd.Buf = append([]Value(nil), cd.Buf[1:]...)
		st.writeChan(ch, &cd)
		return v, true
	}
	return ex.zero(elem), false
}

func (ex *Exec) doSend(st *State, ch ChanV, v Value) {
	cd := *st.chanData(ch)
	if cd.Closed {
		ex.runtimePanic("send on closed channel")
	}
	cd.Buf = append(append([]Value(nil), cd.Buf...), v)
	st.writeChan(ch, &cd)
}

func (ex *Exec) recv(st *State, fr *Frame, ch ChanV, commaOk bool, t types.Type) Value {
	c := ex.Ctx
	var elem types.Type
	if commaOk {
		elem = t.(*types.Tuple).At(0).Type()
	} else {
		elem = t
	}
	if ch.Obj == 0 {
		st.block("receive from nil channel")
	}
	cd := st.chanData(ch)
	if !cd.canRecv() {
		st.block("receive on empty channel")
	}
	v, ok := ex.doRecv(st, ch, elem)
	st.events = append(st.events, Event{Kind: "recv", Args: []Value{ch}})
	if commaOk {
		return TupleV{v, c.Bool(ok)}
	}
	return v
}

func (ex *Exec) execSend(st *State, fr *Frame, in *ssa.Send) {
	ch := st.get(fr, in.Chan).(ChanV)
	if ch.Obj == 0 {
		st.block("send on nil channel")
	}
	cd := st.chanData(ch)
	if cd.Closed {
		ex.runtimePanic("send on closed channel")
	}
	if cd.Env {
		st.events = append(st.events, Event{Kind: "send", Args: []Value{ch, st.get(fr, in.X)}})
		fr.IP++
		return
	}
	if !cd.canSend() {
		st.block("send on full/unbuffered channel with no receiver")
	}
	v := st.get(fr, in.X)
	ex.doSend(st, ch, v)
	st.events = append(st.events, Event{Kind: "send", Args: []Value{ch, v}})
	fr.IP++
}

func (ex *Exec) execSelect(st *State, fr *Frame, in *ssa.Select) {
	c := ex.Ctx
	// result tuple: (index int, recvOk bool, r_0 T_0, ... r_n-1 T_n-1) for receive states
	var enabled []int
	for i, s := range in.States {
		ch := st.get(fr, s.Chan).(ChanV)
		if ch.Obj == 0 {
			continue
		}
		cd := st.chanData(ch)
		if cd.Env && s.Dir == types.SendOnly {
			// the environment is always willing to receive
			enabled = append(enabled, i)
			continue
		}
		if s.Dir == types.RecvOnly && cd.canRecv() {
			enabled = append(enabled, i)
		}
		if s.Dir == types.SendOnly && cd.canSend() {
			enabled = append(enabled, i)
		}
	}
	pick := -1
	if len(enabled) == 0 {
		if in.Blocking {
			st.block("select with no ready case")
		}
	} else {
		n := len(enabled)
		anyEnv := false
		for _, i := range enabled {
			if st.chanData(st.get(fr, in.States[i].Chan).(ChanV)).Env {
				anyEnv = true
			}
		}
		if !in.Blocking && anyEnv {
			// environment cases may also be not ready: default is an option
			k := st.choose("select", n+1)
			if k < n {
				pick = enabled[k]
			}
		} else {
			pick = enabled[st.choose("select", n)]
		}
	}
	tup := in.Type().(*types.Tuple)
	res := make(TupleV, tup.Len())
	res[0] = ex.i64(int64(pick))
	res[1] = c.False
	ri := 2
	for i, s := range in.States {
		if s.Dir != types.RecvOnly {
			continue
		}
		et := tup.At(ri).Type()
		res[ri] = ex.zero(et)
		if i == pick {
			ch := st.get(fr, s.Chan).(ChanV)
			cd := st.chanData(ch)
			if cd.Env {
				v, ok := ex.envRecv(st, ch, cd, et)
				res[ri] = v
				res[1] = c.Bool(ok)
			} else {
				v, ok := ex.doRecv(st, ch, et)
				res[ri] = v
				res[1] = c.Bool(ok)
			}
			st.events = append(st.events, Event{Kind: "recv", Args: []Value{ch}})
		}
		ri++
	}
	if pick >= 0 && in.States[pick].Dir == types.SendOnly {
		ch := st.get(fr, in.States[pick].Chan).(ChanV)
		v := st.get(fr, in.States[pick].Send)
		if cd := st.chanData(ch); cd.Env {
			if cd.Closed {
				ex.runtimePanic("send on closed channel")
			}
		} else {
			ex.doSend(st, ch, v)
		}
		st.events = append(st.events, Event{Kind: "send", Args: []Value{ch, v}})
	}
	st.set(fr, in, res)
	fr.IP++
}

// envRecv produces the value an environment channel delivers: queued values first
// (the harness may preload them), else a zero value with ok=false meaning "closed".
func (ex *Exec) envRecv(st *State, ch ChanV, cd *ChanData, et types.Type) (Value, bool) {
	if len(cd.Buf) > 0 {
		return ex.doRecv(st, ch, et)
	}
	return ex.zero(et), false
}
