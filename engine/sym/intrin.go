package sym

import (
	"net"
	"strconv"
	"fmt"
	"go/types"
	"strings"

	"golang.org/x/tools/go/ssa"
)

func (ex *Exec) errorValue(st *State, msg string) Value {
	// *errors.errorString{s}
	ep := ex.Prog.ImportedPackage("errors")
	if ep == nil {
		unsupported("package errors not loaded")
	}
	t := ep.Type("errorString").Type()
	id := st.alloc(StructV{conStr(msg)}, t)
	return IfaceV{T: types.NewPointer(t), V: Ptr{Obj: id}}
}

func fmtPlaceholder(args []Value) string {
	if len(args) > 0 {
		if s, ok := args[0].(StrV); ok && s.Conc {
			return "‹" + s.S + "›"
		}
	}
	return "‹fmt›"
}

func nop(ex *Exec, st *State, args []Value, site ssa.CallInstruction) Value { return nil }

func (ex *Exec) initIntrinsics() {
	c := ex.Ctx
	in := map[string]intrinsic{}
	ex.intrinsics = in

	// ---- fmt / log: formatting is never the subject ----
	in["fmt.Sprintf"] = func(ex *Exec, st *State, args []Value, site ssa.CallInstruction) Value {
		// concrete format with only %s / %d verbs and concrete string / integer arguments: the real text
		// (map keys such as TupleColumnName are built this way); anything else is a placeholder
		if f, ok := args[0].(StrV); ok && f.Conc && len(args) == 2 {
			if sl, ok := args[1].(SliceV); ok && sl.Len.IsConst() && sl.Obj != 0 {
				var vals []interface{}
				okAll := true
				for _, v := range st.sliceCells(sl, int(sl.Len.V)) {
					iv, isI := v.(IfaceV)
					if !isI || iv.T == nil {
						okAll = false
						break
					}
					switch x := iv.V.(type) {
					case StrV:
						if !x.Conc {
							okAll = false
						}
						vals = append(vals, x.S)
					case *Term:
						b, isB := iv.T.Underlying().(*types.Basic)
						if !x.IsConst() || !isB || b.Info()&types.IsInteger == 0 || x.W > 64 {
							okAll = false
							break
						}
						if b.Info()&types.IsUnsigned != 0 {
							vals = append(vals, x.V)
						} else {
							sh := uint(64 - x.W)
							vals = append(vals, int64(x.V<<sh)>>sh)
						}
					default:
						okAll = false
					}
				}
				plain := true
				for i := 0; i < len(f.S); i++ {
					if f.S[i] == '%' {
						if i+1 >= len(f.S) || (f.S[i+1] != 's' && f.S[i+1] != 'd' && f.S[i+1] != '%') {
							plain = false
						}
						i++
					}
				}
				if okAll && plain {
					return conStr(fmt.Sprintf(f.S, vals...))
				}
			}
		}
		return conStr(fmtPlaceholder(args))
	}
	in["fmt.Sprint"] = func(ex *Exec, st *State, args []Value, site ssa.CallInstruction) Value { return conStr("‹sprint›") }
	in["fmt.Sprintln"] = in["fmt.Sprint"]
	in["fmt.Errorf"] = func(ex *Exec, st *State, args []Value, site ssa.CallInstruction) Value {
		return ex.errorValue(st, fmtPlaceholder(args))
	}
	tupleNil := func(ex *Exec, st *State, args []Value, site ssa.CallInstruction) Value {
		return TupleV{ex.i64(0), IfaceV{}}
	}
	for _, n := range []string{"fmt.Printf", "fmt.Println", "fmt.Print", "fmt.Fprintf", "fmt.Fprintln", "fmt.Fprint"} {
		in[n] = tupleNil
	}
	for _, n := range []string{"log.Printf", "log.Println", "log.Print", "(*log.Logger).Printf", "(*log.Logger).Println", "(*log.Logger).Print"} {
		in[n] = nop
	}
	in["log.Fatalf"] = func(ex *Exec, st *State, args []Value, site ssa.CallInstruction) Value {
		unsupported("log.Fatalf reached")
		return nil
	}

	// ---- errors ----
	in["errors.Is"] = func(ex *Exec, st *State, args []Value, site ssa.CallInstruction) Value {
		e, t := args[0].(IfaceV), args[1].(IfaceV)
		if e.T == nil || t.T == nil {
			return c.Bool(e.T == nil && t.T == nil)
		}
		for _, m := range []string{"Unwrap", "Is"} {
			if ex.Prog.MethodSets.MethodSet(e.T).Lookup(nil, m) != nil {
				// net.OpError etc.: follow single Unwrap chains of harness types is not modelled
				if types.Identical(e.T, t.T) {
					break
				}
				unsupported("errors.Is on %s with %s method", e.T, m)
			}
		}
		if !types.Identical(e.T, t.T) {
			return c.False
		}
		return ex.valueEq(st, e, t)
	}

	// ---- runtime / os no-ops ----
	for _, n := range []string{"runtime.Gosched", "runtime.KeepAlive", "runtime.SetFinalizer", "runtime.GC"} {
		in[n] = nop
	}
	in["os.Getenv"] = func(ex *Exec, st *State, args []Value, site ssa.CallInstruction) Value { return conStr("") }

	// ---- math bit casts ----
	id := func(ex *Exec, st *State, args []Value, site ssa.CallInstruction) Value { return args[0] }
	in["math.Float64bits"] = id
	in["math.Float64frombits"] = id
	in["math.Float32bits"] = id
	in["math.Float32frombits"] = id

	// ---- math/bits ----
	lenN := func(w int) intrinsic {
		return func(ex *Exec, st *State, args []Value, site ssa.CallInstruction) Value {
			x := args[0].(*Term)
			res := ex.i64(0)
			for i := 0; i < w; i++ {
				// highest set bit wins: iterate from low to high
				bit := c.Eq(c.Extract(x, i, i), c.BV(1, 1))
				res = c.Ite(bit, ex.i64(int64(i+1)), res)
			}
			return res
		}
	}
	lz := func(w int) intrinsic {
		l := lenN(w)
		return func(ex *Exec, st *State, args []Value, site ssa.CallInstruction) Value {
			return c.Sub(ex.i64(int64(w)), l(ex, st, args, site).(*Term))
		}
	}
	tz := func(w int) intrinsic {
		return func(ex *Exec, st *State, args []Value, site ssa.CallInstruction) Value {
			x := args[0].(*Term)
			res := ex.i64(int64(w))
			for i := w - 1; i >= 0; i-- {
				bit := c.Eq(c.Extract(x, i, i), c.BV(1, 1))
				res = c.Ite(bit, ex.i64(int64(i)), res)
			}
			return res
		}
	}
	for _, w := range []int{8, 16, 32, 64} {
		in[fmt.Sprintf("math/bits.Len%d", w)] = lenN(w)
		in[fmt.Sprintf("math/bits.LeadingZeros%d", w)] = lz(w)
		in[fmt.Sprintf("math/bits.TrailingZeros%d", w)] = tz(w)
	}
	in["math/bits.Len"] = lenN(64)
	in["math/bits.LeadingZeros"] = lz(64)
	in["math/bits.TrailingZeros"] = tz(64)

	// ---- internal/bytealg leaves ----
	in["internal/bytealg.IndexByteString"] = func(ex *Exec, st *State, args []Value, site ssa.CallInstruction) Value {
		cells, ln := ex.strParts(args[0].(StrV))
		return ex.indexByte(cells, ln, args[1].(*Term))
	}
	in["internal/bytealg.IndexByte"] = func(ex *Exec, st *State, args []Value, site ssa.CallInstruction) Value {
		s := args[0].(SliceV)
		if s.Obj == 0 {
			return ex.i64(-1)
		}
		n := st.ubLen(s, s.Len)
		return ex.indexByte(st.termCells(s, n), s.Len, args[1].(*Term))
	}
	in["internal/bytealg.CountString"] = func(ex *Exec, st *State, args []Value, site ssa.CallInstruction) Value {
		cells, ln := ex.strParts(args[0].(StrV))
		b := args[1].(*Term)
		res := ex.i64(0)
		for i, cl := range cells {
			hit := c.And(c.Slt(ex.i64(int64(i)), ln), c.Eq(cl, b))
			res = c.Add(res, c.Ite(hit, ex.i64(1), ex.i64(0)))
		}
		return res
	}
	in["internal/bytealg.Equal"] = func(ex *Exec, st *State, args []Value, site ssa.CallInstruction) Value {
		return ex.strEq(st.strFromBytes(args[0].(SliceV)), st.strFromBytes(args[1].(SliceV)))
	}
	in["bytes.Equal"] = in["internal/bytealg.Equal"]
	in["internal/bytealg.Compare"] = func(ex *Exec, st *State, args []Value, site ssa.CallInstruction) Value {
		a, b := st.strFromBytes(args[0].(SliceV)), st.strFromBytes(args[1].(SliceV))
		return c.Ite(ex.strLess(a, b), ex.i64(-1), c.Ite(ex.strEq(a, b), ex.i64(0), ex.i64(1)))
	}
	in["bytes.Compare"] = in["internal/bytealg.Compare"]
	in["internal/stringslite.Index"] = nil
	delete(in, "internal/stringslite.Index")
	strIndex := func(ex *Exec, st *State, args []Value, site ssa.CallInstruction) Value {
		s, sub := args[0].(StrV), args[1].(StrV)
		if s.Conc && sub.Conc {
			return ex.i64(int64(strings.Index(s.S, sub.S)))
		}
		if !sub.Conc {
			unsupported("strings.Index with symbolic needle")
		}
		cells, ln := ex.strParts(s)
		m := len(sub.S)
		res := ex.i64(-1)
		for i := len(cells) - m; i >= 0; i-- {
			hit := c.Sle(ex.i64(int64(i+m)), ln)
			for j := 0; j < m; j++ {
				hit = c.And(hit, c.Eq(cells[i+j], c.BV(8, uint64(sub.S[j]))))
			}
			res = c.Ite(hit, ex.i64(int64(i)), res)
		}
		return res
	}
	in["strings.Index"] = strIndex
	in["internal/bytealg.IndexString"] = strIndex
	in["strings.Contains"] = func(ex *Exec, st *State, args []Value, site ssa.CallInstruction) Value {
		return c.Sle(ex.i64(0), strIndex(ex, st, args, site).(*Term))
	}
	in["strings.HasPrefix"] = func(ex *Exec, st *State, args []Value, site ssa.CallInstruction) Value {
		s, p := args[0].(StrV), args[1].(StrV)
		if s.Conc && p.Conc {
			return c.Bool(strings.HasPrefix(s.S, p.S))
		}
		sc, sl := ex.strParts(s)
		pc, pl := ex.strParts(p)
		res := c.Sle(pl, sl)
		for i := range pc {
			in := c.Slt(ex.i64(int64(i)), pl)
			if i < len(sc) {
				res = c.And(res, c.Implies(in, c.Eq(sc[i], pc[i])))
			} else {
				res = c.And(res, c.Not(in))
			}
		}
		return res
	}
	// strings.Fields / strings.Join / strings.Builder use unsafe tricks (noescape, unsafe.String) the
	// interpreter does not model; on concrete arguments they are evaluated natively (pure functions).
	// Clone copies a string with unsafe.String; strings are values here, the copy is the string itself
	in["internal/stringslite.Clone"] = func(ex *Exec, st *State, args []Value, site ssa.CallInstruction) Value { return args[0] }
	in["strings.Clone"] = in["internal/stringslite.Clone"]
	in["strings.Fields"] = func(ex *Exec, st *State, args []Value, site ssa.CallInstruction) Value {
		s := args[0].(StrV)
		if !s.Conc {
			unsupported("strings.Fields on a symbolic string")
		}
		var vals []Value
		for _, f := range strings.Fields(s.S) {
			vals = append(vals, conStr(f))
		}
		return st.sliceFromValues(types.Typ[types.String], vals)
	}
	in["strings.Join"] = func(ex *Exec, st *State, args []Value, site ssa.CallInstruction) Value {
		sl := args[0].(SliceV)
		sep := args[1].(StrV)
		if !sl.Len.IsConst() || !sep.Conc {
			unsupported("strings.Join with symbolic length or separator")
		}
		var parts []string
		for _, v := range st.sliceCells(sl, int(sl.Len.V)) {
			e := v.(StrV)
			if !e.Conc {
				unsupported("strings.Join of symbolic strings")
			}
			parts = append(parts, e.S)
		}
		return conStr(strings.Join(parts, sep.S))
	}
	in["strings.ToLower"] = func(ex *Exec, st *State, args []Value, site ssa.CallInstruction) Value {
		s := args[0].(StrV)
		if s.Conc {
			return conStr(strings.ToLower(s.S))
		}
		cells, ln := ex.strParts(s)
		out := make([]*Term, len(cells))
		for i, cl := range cells {
			up := c.And(c.Ule(c.BV(8, 'A'), cl), c.Ule(cl, c.BV(8, 'Z')))
			out[i] = c.Ite(up, c.Add(cl, c.BV(8, 32)), cl)
			// non-ASCII input is outside the model
			if !st.decide(c.Or(c.Sle(ln, ex.i64(int64(i))), c.Ult(cl, c.BV(8, 0x80)))) {
				unsupported("strings.ToLower on non-ASCII symbolic string")
			}
		}
		return ex.mkStr(out, ln)
	}

	// ---- sync ----
	in["(*sync.Mutex).Lock"] = func(ex *Exec, st *State, args []Value, site ssa.CallInstruction) Value {
		k := ptrKey(args[0].(Ptr))
		if st.locks[k] != 0 {
			st.block("self-deadlock: Lock of a mutex already held by this goroutine")
		}
		st.locks[k] = 1
		st.events = append(st.events, Event{Kind: "lock", Args: []Value{args[0]}})
		return ex.havocOnLock(st, args[0].(Ptr))
	}
	in["(*sync.Mutex).Unlock"] = func(ex *Exec, st *State, args []Value, site ssa.CallInstruction) Value {
		k := ptrKey(args[0].(Ptr))
		if st.locks[k] == 0 {
			ex.fail(st, "sync/unlock-of-unlocked", c.True)
		}
		st.locks[k] = 0
		st.events = append(st.events, Event{Kind: "unlock", Args: []Value{args[0]}})
		return nil
	}
	in["(*sync.Mutex).TryLock"] = func(ex *Exec, st *State, args []Value, site ssa.CallInstruction) Value {
		k := ptrKey(args[0].(Ptr))
		if st.locks[k] != 0 {
			return c.False
		}
		st.locks[k] = 1
		return c.True
	}
	in["(*sync.RWMutex).Lock"] = in["(*sync.Mutex).Lock"]
	in["(*sync.RWMutex).Unlock"] = in["(*sync.Mutex).Unlock"]
	in["(*sync.RWMutex).RLock"] = func(ex *Exec, st *State, args []Value, site ssa.CallInstruction) Value {
		k := ptrKey(args[0].(Ptr))
		if st.locks[k] == 1 {
			st.block("self-deadlock: RLock while holding the write lock")
		}
		st.locks[k] += 2
		st.events = append(st.events, Event{Kind: "rlock", Args: []Value{args[0]}})
		return ex.havocOnLock(st, args[0].(Ptr))
	}
	in["(*sync.RWMutex).RUnlock"] = func(ex *Exec, st *State, args []Value, site ssa.CallInstruction) Value {
		k := ptrKey(args[0].(Ptr))
		if st.locks[k] < 2 {
			ex.fail(st, "sync/runlock-of-unlocked", c.True)
		} else {
			st.locks[k] -= 2
		}
		st.events = append(st.events, Event{Kind: "runlock", Args: []Value{args[0]}})
		return nil
	}
	in["(*sync.Once).Do"] = func(ex *Exec, st *State, args []Value, site ssa.CallInstruction) Value {
		k := ptrKey(args[0].(Ptr))
		if st.once[k] {
			return nil
		}
		st.once[k] = true
		caller := st.top()
		fn := args[1].(FuncV)
		if fn.Fn == nil {
			unsupported("Once.Do with non-SSA function")
		}
		nf := ex.newFrame(fn.Fn, nil, fn.Binds, nil)
		if !caller.RunningDefers {
			// the callee's return advances the caller's IP
		}
		st.frames = append(st.frames, nf)
		return pushed{}
	}
	in["(*sync.WaitGroup).Add"] = func(ex *Exec, st *State, args []Value, site ssa.CallInstruction) Value {
		k := "wg:" + ptrKey(args[0].(Ptr))
		cur, _ := st.ghost[k].(*Term)
		if cur == nil {
			cur = ex.i64(0)
		}
		st.ghost[k] = c.Add(cur, args[1].(*Term))
		return nil
	}
	in["(*sync.WaitGroup).Done"] = func(ex *Exec, st *State, args []Value, site ssa.CallInstruction) Value {
		k := "wg:" + ptrKey(args[0].(Ptr))
		cur, _ := st.ghost[k].(*Term)
		if cur == nil {
			cur = ex.i64(0)
		}
		st.ghost[k] = c.Sub(cur, ex.i64(1))
		return nil
	}
	in["(*sync.WaitGroup).Wait"] = func(ex *Exec, st *State, args []Value, site ssa.CallInstruction) Value {
		if len(st.pendingGo) > 0 {
			k := "wg:" + ptrKey(args[0].(Ptr))
			if cur, _ := st.ghost[k].(*Term); cur != nil && cur.IsConst() && int64(cur.V) > 0 {
				// wait for the deferred goroutines
				ex.runPendingGo(st)
				return pushed{}
			}
		}
		st.events = append(st.events, Event{Kind: "wg.wait", Args: []Value{args[0]}})
		return nil
	}
	in["(*sync.Pool).Get"] = func(ex *Exec, st *State, args []Value, site ssa.CallInstruction) Value {
		// the pool may hand back any object put earlier (the environment decides) or be empty: then New
		p := args[0].(Ptr)
		key := "pool:" + ptrKey(p)
		if lst, _ := st.ghost[key].([]Value); len(lst) > 0 {
			if st.choose("pool_reuses_an_object", 2) == 0 {
				v := lst[len(lst)-1]
				st.ghost[key] = append([]Value(nil), lst[:len(lst)-1]...)
				return v
			}
		}
		pv := st.load(p).(StructV)
		newf := pv[len(pv)-1].(FuncV)
		if newf.IsNil() {
			return IfaceV{}
		}
		nf := ex.newFrame(newf.Fn, nil, newf.Binds, site.Value())
		st.frames = append(st.frames, nf)
		return pushed{}
	}
	in["(*sync.Pool).Put"] = func(ex *Exec, st *State, args []Value, site ssa.CallInstruction) Value {
		key := "pool:" + ptrKey(args[0].(Ptr))
		lst, _ := st.ghost[key].([]Value)
		st.ghost[key] = append(append([]Value(nil), lst...), args[1])
		return nil
	}

	// ---- sync/atomic (sequential semantics unless stubbed by the harness) ----
	for _, ty := range []string{"Int32", "Int64", "Uint32", "Uint64", "Uintptr", "Pointer"} {
		ty := ty
		in["sync/atomic.Load"+ty] = func(ex *Exec, st *State, args []Value, site ssa.CallInstruction) Value {
			return st.load(args[0].(Ptr))
		}
		in["sync/atomic.Store"+ty] = func(ex *Exec, st *State, args []Value, site ssa.CallInstruction) Value {
			st.store(args[0].(Ptr), args[1])
			return nil
		}
		in["sync/atomic.Swap"+ty] = func(ex *Exec, st *State, args []Value, site ssa.CallInstruction) Value {
			old := st.load(args[0].(Ptr))
			st.store(args[0].(Ptr), args[1])
			return old
		}
		in["sync/atomic.CompareAndSwap"+ty] = func(ex *Exec, st *State, args []Value, site ssa.CallInstruction) Value {
			cur := st.load(args[0].(Ptr))
			eq := ex.valueEq(st, cur, args[1])
			if st.decide(eq) {
				st.store(args[0].(Ptr), args[2])
				return c.True
			}
			return c.False
		}
		if ty != "Pointer" {
			in["sync/atomic.Add"+ty] = func(ex *Exec, st *State, args []Value, site ssa.CallInstruction) Value {
				n := c.Add(st.load(args[0].(Ptr)).(*Term), args[1].(*Term))
				st.store(args[0].(Ptr), n)
				return n
			}
		}
	}
	// atomic.Value: stored as ghost cell keyed by pointer
	in["(*sync/atomic.Value).Load"] = func(ex *Exec, st *State, args []Value, site ssa.CallInstruction) Value {
		v, ok := st.ghost["av:"+ptrKey(args[0].(Ptr))]
		if !ok {
			return IfaceV{}
		}
		return v
	}
	in["(*sync/atomic.Value).Store"] = func(ex *Exec, st *State, args []Value, site ssa.CallInstruction) Value {
		iv := args[1].(IfaceV)
		if iv.T == nil {
			panic(goPanic{ex.errorValue(st, "sync/atomic: store of nil value into Value")})
		}
		st.ghost["av:"+ptrKey(args[0].(Ptr))] = iv
		return nil
	}

	// ---- time: only what is pure; the rest must be stubbed by harnesses ----
	in["time.Now"] = func(ex *Exec, st *State, args []Value, site ssa.CallInstruction) Value {
		unsupported("time.Now must be stubbed by the harness")
		return nil
	}
	in["time.Sleep"] = nop
	in["time.runtimeNano"] = func(ex *Exec, st *State, args []Value, site ssa.CallInstruction) Value { return ex.i64(1) }

	// ---- sort.Slice helpers ----
	in["internal/reflectlite.Swapper"] = func(ex *Exec, st *State, args []Value, site ssa.CallInstruction) Value {
		iv := args[0].(IfaceV)
		return FuncV{Native: "swapper", Recv: iv.V}
	}
	in["internal/reflectlite.TypeOf"] = func(ex *Exec, st *State, args []Value, site ssa.CallInstruction) Value {
		return rtypeIface(args[0].(IfaceV).T)
	}
	for _, n := range []string{"internal/godebug.setUpdate", "internal/godebug.registerMetric", "internal/godebug.setNewIncNonDefault"} {
		in[n] = nop
	}
	// crypto/md5 is assembly: an uninterpreted function of its input (same input cells => same digest)
	in["crypto/md5.Sum"] = func(ex *Exec, st *State, args []Value, site ssa.CallInstruction) Value {
		s := args[0].(SliceV)
		key := "md5:"
		if s.Obj != 0 {
			n := st.ubLen(s, s.Len)
			key += fmt.Sprintf("%d:", s.Len.ID)
			for _, t := range st.termCells(s, n) {
				key += fmt.Sprintf("%d,", t.ID)
			}
		}
		if v, ok := st.ghost[key]; ok {
			return v
		}
		out := make(ArrayV, 16)
		base := st.freshName("md5")
		st.nameCnt["md5"]++
		for i := range out {
			t := c.Var(fmt.Sprintf("%s[%d]", base, i), 8)
			st.inputs = append(st.inputs, Input{Name: t.Name, Term: t, Kind: "cell"})
			out[i] = t
		}
		st.ghost[key] = out
		return out
	}
	// net.IP.String: formatting; concrete addresses are formatted natively, symbolic ones give an opaque text
	in["(net.IP).String"] = func(ex *Exec, st *State, args []Value, site ssa.CallInstruction) Value {
		s := args[0].(SliceV)
		if s.Obj == 0 {
			return conStr("<nil>")
		}
		if s.Len.IsConst() {
			n := int(s.Len.V)
			cells := st.termCells(s, n)
			b := make([]byte, n)
			all := true
			for i, cl := range cells {
				if !cl.IsConst() {
					all = false
					break
				}
				b[i] = byte(cl.V)
			}
			if all {
				return conStr(net.IP(b).String())
			}
		}
		return conStr("‹ip›")
	}
	// number formatting: concrete values natively, symbolic values give an opaque text (formatting is never the subject)
	in["strconv.FormatInt"] = func(ex *Exec, st *State, args []Value, site ssa.CallInstruction) Value {
		v, b := args[0].(*Term), args[1].(*Term)
		if v.IsConst() && b.IsConst() {
			return conStr(strconv.FormatInt(int64(v.V), int(b.V)))
		}
		return conStr("‹num›")
	}
	in["strconv.FormatUint"] = func(ex *Exec, st *State, args []Value, site ssa.CallInstruction) Value {
		v, b := args[0].(*Term), args[1].(*Term)
		if v.IsConst() && b.IsConst() {
			return conStr(strconv.FormatUint(v.V, int(b.V)))
		}
		return conStr("‹num›")
	}
	in["strconv.Itoa"] = func(ex *Exec, st *State, args []Value, site ssa.CallInstruction) Value {
		v := args[0].(*Term)
		if v.IsConst() {
			return conStr(strconv.Itoa(int(int64(v.V))))
		}
		return conStr("‹num›")
	}
	in["sync.runtime_registerPoolCleanup"] = nop
	in["sync.runtime_notifyListCheck"] = nop
	in["regexp.MustCompile"] = func(ex *Exec, st *State, args []Value, site ssa.CallInstruction) Value {
		return Ptr{Obj: st.alloc(StructV{args[0]}, nil)} // opaque; regexp methods are not modelled
	}
	in["net.Interfaces"] = func(ex *Exec, st *State, args []Value, site ssa.CallInstruction) Value {
		return TupleV{ex.nilSlice(), IfaceV{}}
	}
	in["runtime/debug.ReadBuildInfo"] = func(ex *Exec, st *State, args []Value, site ssa.CallInstruction) Value {
		return TupleV{Ptr{}, c.False}
	}
	envFill := func(ex *Exec, st *State, s SliceV) {
		n := int(st.constInt(s.Len, "random buffer length"))
		vals := make([]Value, n)
		for i := range vals {
			if ex.inInit {
				vals[i] = c.BV(8, 0xA4)
			} else {
				vals[i] = st.newInput("envrand", 8, "vU8")
			}
		}
		if n > 0 {
			st.writeCells(s.Obj, s.Path, s.Off, vals, s.Len)
		}
	}
	in["crypto/rand.Read"] = func(ex *Exec, st *State, args []Value, site ssa.CallInstruction) Value {
		s := args[0].(SliceV)
		envFill(ex, st, s)
		return TupleV{s.Len, IfaceV{}}
	}
	in["io.ReadFull"] = func(ex *Exec, st *State, args []Value, site ssa.CallInstruction) Value {
		r := args[0].(IfaceV)
		if r.T != nil {
			return notHandled{} // a real reader: interpret io.ReadFull itself
		}
		// nil reader = crypto/rand.Reader (package state not initialised): environment bytes
		s := args[1].(SliceV)
		envFill(ex, st, s)
		return TupleV{s.Len, IfaceV{}}
	}
	in["syscall.runtime_envs"] = func(ex *Exec, st *State, args []Value, site ssa.CallInstruction) Value { return ex.nilSlice() }
	in["internal/reflectlite.ValueOf"] = func(ex *Exec, st *State, args []Value, site ssa.CallInstruction) Value {
		iv := args[0].(IfaceV)
		return ReflV{T: iv.T, V: iv.V, Valid: iv.T != nil}
	}
	in["(internal/reflectlite.Value).Len"] = func(ex *Exec, st *State, args []Value, site ssa.CallInstruction) Value {
		rv := args[0].(ReflV)
		return ex.callBuiltinLen(st, rv.V)
	}
}

func (ex *Exec) callBuiltinLen(st *State, v Value) Value {
	switch x := v.(type) {
	case SliceV:
		if x.Obj == 0 {
			return ex.i64(0)
		}
		return x.Len
	case StrV:
		return ex.strLen(x)
	case MapV:
		if x.Obj == 0 {
			return ex.i64(0)
		}
		return ex.i64(int64(len(st.mapData(x).Entries)))
	case ArrayV:
		return ex.i64(int64(len(x)))
	}
	unsupported("len of %T", v)
	return nil
}

func (ex *Exec) indexByte(cells []*Term, ln *Term, b *Term) *Term {
	c := ex.Ctx
	res := ex.i64(-1)
	for i := len(cells) - 1; i >= 0; i-- {
		hit := c.And(c.Slt(ex.i64(int64(i)), ln), c.Eq(cells[i], b))
		res = c.Ite(hit, ex.i64(int64(i)), res)
	}
	return res
}

// havocOnLock is the environment step of thread-modular harnesses; configured by the harness.
// havocOnLock is the environment step of thread-modular harnesses: right after a lock is
// acquired the harness function named by the spec's on_lock runs (with the mutex address), and
// may change the shared state the lock protects the way other goroutines could have meanwhile.
func (ex *Exec) havocOnLock(st *State, mu Ptr) Value {
	if ex.Spec == nil || ex.Spec.OnLock == "" || ex.inInit {
		return nil
	}
	fn := ex.lookupHarnessFn(ex.Spec.OnLock)
	if fn == nil {
		unsupported("on_lock function %s not found", ex.Spec.OnLock)
	}
	if st.top().RunningDefers {
		return nil // locks taken inside deferred calls are not havoc points
	}
	// the hook itself may lock: do not recurse
	for _, fr := range st.frames {
		if fr.Fn == fn {
			return nil
		}
	}
	nf := ex.newFrame(fn, []Value{Ptr{Obj: mu.Obj, Path: mu.Path}}, nil, nil)
	st.frames = append(st.frames, nf)
	return pushed{}
}

// callNative runs engine-made function values.
func (ex *Exec) callNative(st *State, fn FuncV, args []Value, site ssa.CallInstruction) Value {
	switch {
	case fn.Native == "swapper":
		s := fn.Recv.(SliceV)
		i := st.constInt(args[0].(*Term), "swap index")
		j := st.constInt(args[1].(*Term), "swap index")
		off := st.constInt(s.Off, "slice offset")
		o := st.obj(s.Obj)
		arr := getPath(o.Val, s.Path).(ArrayV)
		na := make(ArrayV, len(arr))
		copy(na, arr)
		na[off+i], na[off+j] = na[off+j], na[off+i]
		st.setObjVal(s.Obj, setPath(o.Val, s.Path, na))
		return nil
	case strings.HasPrefix(fn.Native, "reflect.Type."):
		return ex.rtypeMethod(st, fn.Recv.(RTypeV), strings.TrimPrefix(fn.Native, "reflect.Type."), args)
	}
	unsupported("native function %s", fn.Native)
	return nil
}

// nativeReturn handles returns from frames pushed by intrinsics with a continuation tag.
func (ex *Exec) nativeReturn(st *State, caller *Frame, fr *Frame, res Value) {
	if fr.Native == "goresume" {
		return // a deferred goroutine finished: the interrupted instruction of the frame below runs again
	}
	unsupported("native continuation %s", fr.Native)
}
