package sym

import (
	"fmt"
	"go/constant"
	"go/token"
	"go/types"
	"math"
	"math/big"
	"os"
	"sort"
	"strconv"
	"strings"
	"time"

	"golang.org/x/tools/go/ssa"
)

type fnInfo struct {
	idx map[ssa.Value]int
	n   int
}

// EntrySpec configures one harness entry.
type EntrySpec struct {
	Name              string            `json:"name"`
	Ref               string            `json:"ref"` // take this entry's definition from harness/<ref>.json
	Pkg               string            `json:"pkg"`
	Bounds            map[string]int    `json:"bounds"`
	Thorough          map[string]int    `json:"thorough"`
	Stubs             map[string]string `json:"stubs"`
	Unwind            int               `json:"unwind"`
	MaxSteps          int               `json:"max_steps"`
	MaxPaths          int               `json:"max_paths"`
	Solver            string            `json:"solver"`
	AbstractMul       bool              `json:"abstract_mul"`
	AllowPanic        bool              `json:"allow_panic"`
	ThoroughOnly      bool              `json:"thorough_only"`
	InlineGo          []string          `json:"inline_go"`
	DeferGo           []string          `json:"defer_go"`
	EnvChans          bool              `json:"env_chans"`
	Tags              []string          `json:"tags"`
	NoInit            bool              `json:"no_init"`
	Family            string            `json:"family"`
	Instances         []map[string]int  `json:"instances"`
	ThoroughInstances []map[string]int  `json:"thorough_instances"`
	TimeoutS          int               `json:"timeout_s"`
	OnLock            string            `json:"on_lock"`
	AllowBlock        bool              `json:"allow_block"`
	AllowBlockIn      []string          `json:"allow_block_in"`
}

type Exec struct {
	Prog            *ssa.Program
	Ctx             *Ctx
	Spec            *EntrySpec
	Bounds          map[string]int
	MaxConc         int
	fnInfos         map[*ssa.Function]*fnInfo
	globalID        map[*ssa.Global]int
	globalByID      map[int]*ssa.Global
	nextGlobal      int
	pkgInit         map[*ssa.Package]int // 0 not run, 1 running, 2 ok, 3 failed
	varCache        map[int][]int
	ufIdx           map[string]int
	stateSeq        int
	crossN          int
	crossUnknownRun int
	HarnessPkg      *ssa.Package
	intrinsics      map[string]intrinsic
	rtErrType       types.Type
	// statistics
	Steps                     int
	States                    int
	Forks                     int
	FnsEntered                map[string]bool
	Results                   *EntryResult
	baseHeap                  map[int]*HObj
	baseNext                  int
	inInit                    bool
	ForkSites                 map[string]int
	extra                     map[string]*Solver
	primary                   string
	qcache                    map[string]Result
	CacheHits                 int
	dumpSeq                   int
	fastTimeout, finalTimeout time.Duration
	NoIfConv                  bool
	IfConverted               int
	LabelPrefixes             []string
	baseGhost                 map[string]Value
	baseOnce                  map[string]bool
	QuerySolver               time.Duration
	Trace                     bool
	final                     []*Solver
	deadline                  time.Time
	SpecMaxConc               int
	Tier                      string
}

func (ex *Exec) info(fn *ssa.Function) *fnInfo {
	if fi, ok := ex.fnInfos[fn]; ok {
		return fi
	}
	fi := &fnInfo{idx: map[ssa.Value]int{}}
	add := func(v ssa.Value) {
		fi.idx[v] = fi.n
		fi.n++
	}
	for _, p := range fn.Params {
		add(p)
	}
	for _, fv := range fn.FreeVars {
		add(fv)
	}
	for _, b := range fn.Blocks {
		for _, in := range b.Instrs {
			if v, ok := in.(ssa.Value); ok {
				add(v)
			}
		}
	}
	ex.fnInfos[fn] = fi
	return fi
}

func (ex *Exec) globalObj(g *ssa.Global) int {
	if id, ok := ex.globalID[g]; ok {
		return id
	}
	ex.nextGlobal++
	id := 1<<40 + ex.nextGlobal
	ex.globalID[g] = id
	ex.globalByID[id] = g
	return id
}

func (ex *Exec) pkgInitOK(p *ssa.Package) bool {
	s := ex.pkgInit[p]
	return s == 1 || s == 2
}

// ---- zero values and constants ----

func (ex *Exec) zero(t types.Type) Value {
	if isNamed(t, "reflect", "Value") {
		return ReflV{}
	}
	if isNamed(t, "math/big", "Int") {
		return ex.bigZero()
	}
	switch u := t.Underlying().(type) {
	case *types.Basic:
		if w, _, ok := intInfo(u); ok {
			return ex.Ctx.BV(w, 0)
		}
		if w, ok := isFloat(u); ok {
			return ex.Ctx.BV(w, 0)
		}
		switch {
		case u.Info()&types.IsBoolean != 0:
			return ex.Ctx.False
		case u.Info()&types.IsString != 0:
			return conStr("")
		case u.Kind() == types.UnsafePointer:
			return Ptr{}
		case u.Kind() == types.UntypedNil, u.Kind() == types.Invalid:
			return nil // invalid = blank component of a range tuple
		}
		unsupported("zero value of basic type %s", u)
	case *types.Pointer:
		return Ptr{}
	case *types.Slice:
		return ex.nilSlice()
	case *types.Map:
		return MapV{}
	case *types.Chan:
		return ChanV{}
	case *types.Signature:
		return FuncV{}
	case *types.Interface:
		return IfaceV{}
	case *types.Struct:
		s := make(StructV, u.NumFields())
		for i := range s {
			s[i] = ex.zero(u.Field(i).Type())
		}
		return s
	case *types.Array:
		n := int(u.Len())
		if n > 1<<16 {
			unsupported("array of %d elements", n)
		}
		a := make(ArrayV, n)
		if n > 0 {
			z := ex.zero(u.Elem())
			for i := range a {
				a[i] = z
			}
		}
		return a
	case *types.Tuple:
		tv := make(TupleV, u.Len())
		for i := range tv {
			tv[i] = ex.zero(u.At(i).Type())
		}
		return tv
	}
	unsupported("zero value of type %s", t)
	return nil
}

func (ex *Exec) constValue(c *ssa.Const) Value {
	t := c.Type()
	if c.Value == nil {
		return ex.zero(t)
	}
	if w, signed, ok := intInfo(t); ok {
		v := constant.ToInt(c.Value)
		if signed {
			i, exact := constant.Int64Val(v)
			if !exact {
				unsupported("constant %s not int64", c)
			}
			return ex.Ctx.BV(w, uint64(i))
		}
		u, exact := constant.Uint64Val(v)
		if !exact {
			i, ex2 := constant.Int64Val(v)
			if !ex2 {
				unsupported("constant %s not uint64", c)
			}
			u = uint64(i)
		}
		return ex.Ctx.BV(w, u)
	}
	if w, ok := isFloat(t); ok {
		f, _ := constant.Float64Val(c.Value)
		if w == 32 {
			return ex.Ctx.BV(32, uint64(math.Float32bits(float32(f))))
		}
		return ex.Ctx.BV(64, math.Float64bits(f))
	}
	if isBool(t) {
		return ex.Ctx.Bool(constant.BoolVal(c.Value))
	}
	if isString(t) {
		if c.Value.Kind() == constant.String {
			return conStr(constant.StringVal(c.Value))
		}
	}
	unsupported("constant %s of type %s", c, t)
	return nil
}

func (st *State) get(fr *Frame, v ssa.Value) Value {
	switch x := v.(type) {
	case *ssa.Const:
		return st.ex.constValue(x)
	case *ssa.Global:
		return Ptr{Obj: st.ex.globalObj(x)}
	case *ssa.Function:
		return FuncV{Fn: x}
	case *ssa.Builtin:
		return FuncV{Builtin: x}
	}
	i, ok := fr.Info.idx[v]
	if !ok {
		panic(abort{"internal", fmt.Sprintf("no register for %s in %s", v.Name(), fr.Fn)})
	}
	return fr.Regs[i]
}

func (st *State) set(fr *Frame, v ssa.Value, val Value) {
	fr.Regs[fr.Info.idx[v]] = val
}

// ---- running ----

func (ex *Exec) newFrame(fn *ssa.Function, args []Value, binds []Value, retTo ssa.Value) *Frame {
	fi := ex.info(fn)
	fr := &Frame{Fn: fn, Info: fi, Regs: make([]Value, fi.n), RetTo: retTo}
	if len(args) != len(fn.Params) {
		panic(abort{"internal", fmt.Sprintf("call of %s with %d args, want %d", fn, len(args), len(fn.Params))})
	}
	for i, p := range fn.Params {
		fr.Regs[fi.idx[p]] = args[i]
	}
	for i, fv := range fn.FreeVars {
		fr.Regs[fi.idx[fv]] = binds[i]
	}
	fr.Block = fn.Blocks[0]
	if ex.FnsEntered != nil {
		ex.FnsEntered[fn.String()] = true
	}
	return fr
}

// runPath runs st until it terminates or forks; returns successor states.
func (ex *Exec) runPath(st *State) (succ []*State) {
	defer func() {
		if r := recover(); r != nil {
			switch x := r.(type) {
			case forkReq:
				succ = ex.forkBool(st, x.cond)
			case concReq:
				succ = ex.forkValues(st, x.t, x.max)
			case yieldReq:
				succ = []*State{st} // a pending goroutine was scheduled; the interrupted instruction runs again after it
			case abort:
				if st.status == Blocked && x.kind == "stop" {
					// st.block(): the goroutine under analysis waits forever on this path; the driver turns that
					// into the no-block obligation (unless the entry allows blocking)
					succ = []*State{st}
					break
				}
				st.status = Aborted
				st.abortK = x.kind
				st.abortM = x.msg + st.where()
				succ = []*State{st}
			default:
				panic(r)
			}
		}
	}()
	for st.status == Running {
		ex.step(st)
	}
	return []*State{st}
}

func (st *State) where() string {
	var sb strings.Builder
	for i := len(st.frames) - 1; i >= 0 && i >= len(st.frames)-6; i-- {
		fr := st.frames[i]
		pos := ""
		if fr.Block != nil && fr.IP < len(fr.Block.Instrs) {
			p := fr.Fn.Prog.Fset.Position(fr.Block.Instrs[fr.IP].Pos())
			if p.IsValid() {
				pos = fmt.Sprintf(" %s:%d", shortFile(p.Filename), p.Line)
			}
		}
		fmt.Fprintf(&sb, "\n    at %s%s", fr.Fn, pos)
	}
	return sb.String()
}

func shortFile(f string) string {
	if i := strings.LastIndex(f, "/"); i >= 0 {
		return f[i+1:]
	}
	return f
}

func (ex *Exec) forkBool(st *State, cond *Term) []*State {
	ex.Forks++
	if ex.ForkSites != nil {
		w := st.where()
		if i := strings.Index(w[1:], "\n"); i > 0 {
			w = w[:i+1]
		}
		fr := st.top()
		if fr.Block != nil && fr.IP < len(fr.Block.Instrs) {
			if iff, ok := fr.Block.Instrs[fr.IP].(*ssa.If); ok {
				w += fmt.Sprintf(" block %d cond@%v", fr.Block.Index, ex.Prog.Fset.Position(iff.Cond.Pos()))
			} else {
				w += fmt.Sprintf(" instr %T", fr.Block.Instrs[fr.IP])
			}
		}
		ex.ForkSites[strings.TrimSpace(w)]++
	}
	rt := st.feasible(cond)
	var out []*State
	if rt == Unsat {
		st.noteFact(cond, false)
		st.pc = append(st.pc, ex.Ctx.Not(cond)) // implied, keeps slicing simple
		return []*State{st}
	}
	rf := st.feasible(ex.Ctx.Not(cond))
	if rf == Unsat {
		st.noteFact(cond, true)
		st.pc = append(st.pc, cond)
		return []*State{st}
	}
	if rt == Unknown || rf == Unknown {
		ex.Results.UnknownFeas++
	}
	a := st.clone()
	a.depth++
	a.addPC(cond)
	st.depth++
	st.addPC(ex.Ctx.Not(cond))
	out = append(out, a, st)
	return out
}

func (ex *Exec) forkValues(st *State, t *Term, max int) []*State {
	ex.Forks++
	var out []*State
	var vals []uint64
	excl := append([]*Term(nil), st.slicePC(t)...)
	for {
		r, m := ex.check(excl, []*Term{t})
		if r == Unsat {
			break
		}
		if r == Unknown {
			st.status = Aborted
			st.abortK = "unknown"
			st.abortM = "solver unknown while enumerating values of " + t.String() + st.where()
			return []*State{st}
		}
		v := m[t.ID].Uint64()
		vals = append(vals, v)
		excl = append(excl, ex.Ctx.Not(ex.Ctx.Eq(t, ex.Ctx.BV(t.W, v))))
		if len(vals) > max {
			st.status = Aborted
			st.abortK = "unwind"
			st.abortM = fmt.Sprintf("more than %d feasible values for %s", max, t) + st.where()
			return []*State{st}
		}
	}
	shards, shard, sdepth := ex.Bounds["shards"], ex.Bounds["shard"], ex.Bounds["shard_depth"]
	for i, v := range vals {
		s := st
		if i < len(vals)-1 {
			s = st.clone()
		}
		s.depth++
		s.addPC(ex.Ctx.Eq(t, ex.Ctx.BV(t.W, v)))
		s.conc[t.ID] = v
		// sharding: the decision VALUES (not their enumeration order, which depends on solver models) identify
		// the path prefix; at the shard_depth-th value fork a job keeps only the prefixes that hash to its index
		s.vdepth++
		s.vhash = s.vhash*1000003 + v + 1
		if shards > 1 && s.vdepth == sdepth && int(mix64(s.vhash)%uint64(shards)) != shard {
			ex.Results.OtherShards++
			continue
		}
		out = append(out, s)
	}
	if len(out) == 0 {
		st.status = Aborted
		st.abortK = "stop"
		st.abortM = "all successors belong to other shards"
		return []*State{st}
	}
	return out
}

// mix64 is the splitmix64 finaliser (spreads the few distinct prefix hashes evenly over the shards).
func mix64(x uint64) uint64 {
	x ^= x >> 30
	x *= 0xbf58476d1ce4e5b9
	x ^= x >> 27
	x *= 0x94d049bb133111eb
	x ^= x >> 31
	return x
}

// portfolio order after the primary solver
var portfolio = []string{"z3", "cvc5-int", "z3-new", "cvc5"}

func (ex *Exec) solver(kind string, final bool) *Solver {
	key := kind + "/fast"
	to := ex.fastTimeout
	if final {
		key = kind + "/final"
		to = ex.finalTimeout
	}
	if s := ex.extra[key]; s != nil {
		return s
	}
	s, err := NewSolver(ex.Ctx, kind, to)
	if err != nil {
		return nil
	}
	if ex.extra == nil {
		ex.extra = map[string]*Solver{}
	}
	ex.extra[key] = s
	return s
}

func (ex *Exec) tryKinds(kinds []string, final bool, as []*Term, want []*Term) (Result, map[int]*big.Int) {
	// verdict cache for model-free queries (the same sliced query recurs on sibling paths)
	var key string
	if len(want) == 0 {
		ids := make([]int, 0, len(as))
		for _, a := range as {
			if a.IsFalse() {
				return Unsat, nil
			}
			if !a.IsTrue() {
				ids = append(ids, a.ID)
			}
		}
		sort.Ints(ids)
		var sb strings.Builder
		for _, id := range ids {
			sb.WriteString(strconv.Itoa(id))
			sb.WriteByte(',')
		}
		key = sb.String()
		if r, ok := ex.qcache[key]; ok && (r != Unknown || !final) {
			ex.CacheHits++
			return r, nil
		}
		defer func() {}()
	}
	r, m := ex.tryKindsRaw(kinds, final, as, want)
	if key != "" {
		if ex.qcache == nil {
			ex.qcache = map[string]Result{}
		}
		ex.qcache[key] = r
	}
	return r, m
}

func (ex *Exec) tryKindsRaw(kinds []string, final bool, as []*Term, want []*Term) (Result, map[int]*big.Int) {
	for i, kind := range kinds {
		s := ex.solver(kind, final)
		if s == nil {
			continue
		}
		before := len(s.Errors)
		r, m := s.Check(as, want)
		if i > 0 {
			ex.Results.Escalations++
		}
		if r != Unknown && len(s.Errors) == before {
			return r, m
		}
		if d := os.Getenv("VERIF_DUMPQ"); d != "" && i == 0 {
			ex.dumpSeq++
			os.WriteFile(fmt.Sprintf("%s/u%03d.smt2", d, ex.dumpSeq), []byte(ex.Ctx.Dump(as)), 0o644)
		}
	}
	return Unknown, nil
}

// check is the feasibility query: short timeout, primary back end then one alternative.
// Unknown keeps both branches (sound: obligations on an infeasible path are unsat).
func (ex *Exec) check(as []*Term, want []*Term) (Result, map[int]*big.Int) {
	alt := "cvc5-int"
	if ex.primary == "cvc5-int" {
		alt = "z3"
	}
	return ex.tryKinds([]string{ex.primary, alt}, false, as, want)
}

// checkFinal decides obligations: long timeout, whole portfolio.
func (ex *Exec) checkFinal(as []*Term, want []*Term) (Result, map[int]*big.Int) {
	r, m := ex.tryKinds([]string{ex.primary}, false, as, want)
	if r != Unknown {
		return r, m
	}
	if d := os.Getenv("VERIF_DUMPQ"); d != "" {
		ex.dumpSeq++
		os.WriteFile(fmt.Sprintf("%s/q%03d.smt2", d, ex.dumpSeq), []byte(ex.Ctx.Dump(as)), 0o644)
	}
	kinds := []string{ex.primary}
	for _, k := range portfolio {
		if k != ex.primary {
			kinds = append(kinds, k)
		}
	}
	return ex.tryKinds(kinds, true, as, want)
}

// crossBudget: in the thorough tier (or with VERIF_CROSS=1) the first 400 non-trivial unsat verdicts of an
// entry are cross-checked.
func (ex *Exec) crossBudget() bool {
	if ex.Tier != "thorough" && os.Getenv("VERIF_CROSS") == "" {
		return false
	}
	if ex.crossN >= 400 {
		return false
	}
	ex.crossN++
	return true
}

// crossCheck re-decides an obligation with back ends other than the primary (fresh, short timeout).
func (ex *Exec) crossCheck(as []*Term) Result {
	for _, kind := range []string{"cvc5-int", "z3-new", "z3"} {
		if kind == ex.primary {
			continue
		}
		key := kind + "/cross"
		s := ex.extra[key]
		if s == nil {
			var err error
			s, err = NewSolver(ex.Ctx, kind, 10*time.Second)
			if err != nil {
				continue
			}
			if ex.extra == nil {
				ex.extra = map[string]*Solver{}
			}
			ex.extra[key] = s
		}
		before := len(s.Errors)
		r, _ := s.Check(as, nil)
		if len(s.Errors) != before {
			s.Errors = s.Errors[:before] // an error of the second solver is an undecided cross-check, not a failed run
			continue
		}
		if r != Unknown {
			return r
		}
	}
	return Unknown
}

func (ex *Exec) closeSolvers() {
	for _, s := range ex.extra {
		s.Close()
	}
}

func (ex *Exec) step(st *State) {
	st.steps++
	ex.Steps++
	if st.steps > ex.maxSteps() {
		panic(abort{"unwind", fmt.Sprintf("step limit %d reached", ex.maxSteps())})
	}
	fr := st.top()
	defer func() {
		if r := recover(); r != nil {
			if gp, ok := r.(goPanic); ok {
				ex.startPanic(st, gp.val)
				return
			}
			panic(r)
		}
	}()
	if fr.RunningDefers {
		ex.continueDefers(st, fr)
		return
	}
	instr := fr.Block.Instrs[fr.IP]
	if ex.Trace {
		fmt.Fprintf(os.Stderr, "[%d] %s: %s\n", st.id, fr.Fn.Name(), instr)
	}
	ex.exec(st, fr, instr)
}

func (ex *Exec) maxSteps() int {
	if ex.Spec != nil && ex.Spec.MaxSteps > 0 {
		return ex.Spec.MaxSteps
	}
	return 2000000
}

func (ex *Exec) unwind() int {
	if ex.Spec != nil && ex.Spec.Unwind > 0 {
		return ex.Spec.Unwind
	}
	return 100000
}

func (ex *Exec) jump(st *State, fr *Frame, to *ssa.BasicBlock) {
	// evaluate phis simultaneously
	var idx int
	for i, p := range to.Preds {
		if p == fr.Block {
			idx = i
			break
		}
	}
	var vals []Value
	nphi := 0
	for _, in := range to.Instrs {
		phi, ok := in.(*ssa.Phi)
		if !ok {
			break
		}
		vals = append(vals, st.get(fr, phi.Edges[idx]))
		nphi++
	}
	for i := 0; i < nphi; i++ {
		st.set(fr, to.Instrs[i].(*ssa.Phi), vals[i])
	}
	if fr.Visits == nil {
		fr.Visits = map[int]int{}
	}
	fr.Visits[to.Index]++
	if fr.Visits[to.Index] > ex.unwind() {
		panic(abort{"unwind", fmt.Sprintf("block %d of %s visited more than %d times", to.Index, fr.Fn, ex.unwind())})
	}
	fr.Prev = fr.Block
	fr.Block = to
	fr.IP = nphi
}

// runtimePanic raises a Go runtime error panic.
func (ex *Exec) runtimePanic(msg string) {
	panic(goPanic{IfaceV{T: ex.rtErrType, V: conStr(msg)}})
}

// need forks on ok; on the failing side a runtime panic is raised.
func (st *State) need(ok *Term, msg string) {
	if !st.decide(ok) {
		st.ex.runtimePanic(msg)
	}
}

func (ex *Exec) startPanic(st *State, val Value) {
	fr := st.top()
	fr.Panicking = true
	fr.PanicVal = val
	fr.Recovered = false
	fr.RunningDefers = true
	fr.AfterDefers = 1
}

// continueDefers runs the next deferred call of fr or finishes the defer phase.
func (ex *Exec) continueDefers(st *State, fr *Frame) {
	if n := len(fr.Defers); n > 0 {
		d := fr.Defers[n-1]
		fr.Defers = fr.Defers[:n-1]
		func() {
			defer func() {
				if r := recover(); r != nil {
					switch r.(type) {
					case forkReq, concReq:
						// re-executed after the fork: put the deferred call back
						fr.Defers = append(fr.Defers[:n-1:n-1], d)
					}
					panic(r)
				}
			}()
			ex.callValue(st, d.fn, d.args, nil, nil)
		}()
		return
	}
	fr.RunningDefers = false
	if fr.AfterDefers == 0 {
		// RunDefers instruction finished
		fr.IP++
		return
	}
	// unwinding
	if fr.Panicking && !fr.Recovered {
		val := fr.PanicVal
		st.frames = st.frames[:len(st.frames)-1]
		if len(st.frames) == 0 {
			st.status = Panicked
			st.panicV = val
			return
		}
		// a panic in a deferred call replaces the caller's panic
		ex.startPanic(st, val)
		return
	}
	// recovered: resume at Recover block or return zero results
	fr.Panicking = false
	fr.AfterDefers = 0
	if fr.Fn.Recover != nil {
		fr.Prev = fr.Block
		fr.Block = fr.Fn.Recover
		fr.IP = 0
		return
	}
	var res Value
	rs := fr.Fn.Signature.Results()
	switch rs.Len() {
	case 0:
	case 1:
		res = ex.zero(rs.At(0).Type())
	default:
		res = ex.zero(rs)
	}
	ex.doReturn(st, fr, res)
}

func (ex *Exec) doReturn(st *State, fr *Frame, res Value) {
	st.frames = st.frames[:len(st.frames)-1]
	if len(st.frames) == 0 {
		st.status = Done
		return
	}
	caller := st.top()
	if fr.Native != "" {
		ex.nativeReturn(st, caller, fr, res)
		return
	}
	if caller.RunningDefers {
		return // result of deferred call discarded
	}
	if fr.RetTo != nil {
		st.set(caller, fr.RetTo, res)
	}
	caller.IP++
}

type intrinsic func(ex *Exec, st *State, args []Value, site ssa.CallInstruction) Value

// deferred goroutines (spec defer_go)
type pendingGo struct {
	fn   FuncV
	args []Value
}

type yieldReq struct{}

// runPendingGo schedules the oldest pending goroutine: its frame is pushed on top of the current one and,
// because the frame is a native continuation, its return does not advance the interrupted instruction,
// which therefore executes again. Reports whether a goroutine was scheduled.
func (ex *Exec) runPendingGo(st *State) bool {
	if len(st.pendingGo) == 0 {
		return false
	}
	g := st.pendingGo[0]
	st.pendingGo = append([]pendingGo(nil), st.pendingGo[1:]...)
	f := g.fn.Fn
	if ex.Spec != nil {
		if stub, ok := ex.Spec.Stubs[f.String()]; ok {
			if sf := ex.lookupHarnessFn(stub); sf != nil {
				f = sf
			}
		}
	}
	nf := ex.newFrame(f, g.args, g.fn.Binds, nil)
	nf.Native = "goresume"
	st.frames = append(st.frames, nf)
	st.events = append(st.events, Event{Kind: "gorun:" + f.String()})
	return true
}

// notHandled is returned by intrinsics that decline a call: the real body is interpreted.
type notHandled struct{}

// pushed is returned by intrinsics that pushed a frame instead of producing a value.
type pushed struct{}

// callValue performs a call; the result goes to retTo in the current top frame.
// The caller's IP is advanced when the callee returns (or immediately for intrinsics).
func (ex *Exec) callValue(st *State, fn FuncV, args []Value, retTo ssa.Value, site ssa.CallInstruction) {
	caller := st.top()
	finish := func(res Value) {
		if caller.RunningDefers {
			return
		}
		if retTo != nil {
			st.set(caller, retTo, res)
		}
		caller.IP++
	}
	if fn.Builtin != nil {
		finish(ex.callBuiltin(st, fn.Builtin, args, site))
		return
	}
	if fn.Native != "" {
		res := ex.callNative(st, fn, args, site)
		if _, ok := res.(pushed); ok {
			return
		}
		finish(res)
		return
	}
	if fn.Fn == nil {
		ex.runtimePanic("invalid memory address or nil pointer dereference")
	}
	f := fn.Fn
	name := f.String()
	if ex.Spec != nil {
		if stub, ok := ex.Spec.Stubs[name]; ok {
			sf := ex.lookupHarnessFn(stub)
			if sf == nil {
				unsupported("stub %s for %s not found", stub, name)
			}
			f = sf
			name = f.String()
			fn = FuncV{Fn: sf}
		}
	}
	if strings.HasPrefix(name, "unique.Make[") {
		// interning: equal concrete values share one pointer
		h, ok := hashKey(args[0])
		if !ok {
			unsupported("unique.Make of symbolic value")
		}
		k := "unique:" + name + ":" + h
		p, seen := st.ghost[k]
		if !seen {
			p = Ptr{Obj: st.alloc(args[0], nil)}
			st.ghost[k] = p
		}
		finish(StructV{p})
		return
	}
	if isPkgInit(f) {
		finish(nil) // package initialisers are run up front by RunInits
		return
	}
	if in, ok := ex.intrinsics[name]; ok {
		res := in(ex, st, args, site)
		if _, ok := res.(pushed); ok {
			return
		}
		if _, skip := res.(notHandled); !skip {
			finish(res)
			return
		}
	}
	if h := ex.harnessIntrinsic(f); h != nil {
		res := h(ex, st, args, site)
		if _, ok := res.(pushed); ok {
			return
		}
		finish(res)
		return
	}
	if isReflectIntercept(f) {
		finish(ex.callReflect(st, f, args))
		return
	}
	if f.Blocks == nil {
		// generic instantiation wrappers etc. have blocks; true externals do not
		unsupported("call of external function %s", name)
	}
	if len(st.frames) > 400 {
		panic(abort{"unwind", "call depth exceeds 400"})
	}
	nf := ex.newFrame(f, args, fn.Binds, retTo)
	st.frames = append(st.frames, nf)
}

// isReflectIntercept: package-level reflect functions and methods of reflect.Value / Kind are modelled;
// other reflect methods (StructTag.Get, ...) are pure Go and interpreted.
func isReflectIntercept(f *ssa.Function) bool {
	r := f.Signature.Recv()
	if r == nil {
		return f.Pkg != nil && f.Pkg.Pkg.Path() == "reflect" && f.Parent() == nil
	}
	return isNamed(r.Type(), "reflect", "Value") || isNamed(r.Type(), "reflect", "Kind")
}

func (ex *Exec) lookupHarnessFn(name string) *ssa.Function {
	if ex.HarnessPkg == nil {
		return nil
	}
	if f := ex.HarnessPkg.Func(name); f != nil {
		return f
	}
	// Type.method form: "T.m" or "*T.m"
	if i := strings.Index(name, "."); i > 0 {
		tn, mn := name[:i], name[i+1:]
		ptr := strings.HasPrefix(tn, "*")
		tn = strings.TrimPrefix(tn, "*")
		if t := ex.HarnessPkg.Type(tn); t != nil {
			var typ types.Type = t.Type()
			if ptr {
				typ = types.NewPointer(typ)
			}
			sel := ex.Prog.MethodSets.MethodSet(typ).Lookup(ex.HarnessPkg.Pkg, mn)
			if sel != nil {
				return ex.Prog.MethodValue(sel)
			}
		}
	}
	return nil
}

func (ex *Exec) exec(st *State, fr *Frame, instr ssa.Instruction) {
	c := ex.Ctx
	switch in := instr.(type) {
	case *ssa.DebugRef:
		fr.IP++
	case *ssa.Alloc:
		et := in.Type().(*types.Pointer).Elem()
		id := st.alloc(ex.zero(et), et)
		st.set(fr, in, Ptr{Obj: id})
		fr.IP++
	case *ssa.BinOp:
		st.set(fr, in, ex.binop(st, in.Op, in.X.Type(), st.get(fr, in.X), st.get(fr, in.Y), in.Y.Type()))
		fr.IP++
	case *ssa.UnOp:
		v := ex.unop(st, fr, in)
		st.set(fr, in, v)
		fr.IP++
	case *ssa.Call:
		ex.execCall(st, fr, in.Common(), in, in)
	case *ssa.ChangeInterface:
		st.set(fr, in, st.get(fr, in.X))
		fr.IP++
	case *ssa.ChangeType:
		st.set(fr, in, st.get(fr, in.X))
		fr.IP++
	case *ssa.Convert:
		st.set(fr, in, ex.convert(st, st.get(fr, in.X), in.X.Type(), in.Type()))
		fr.IP++
	case *ssa.MultiConvert:
		st.set(fr, in, ex.convert(st, st.get(fr, in.X), in.X.Type(), in.Type()))
		fr.IP++
	case *ssa.SliceToArrayPointer:
		s := st.get(fr, in.X).(SliceV)
		n := in.Type().(*types.Pointer).Elem().Underlying().(*types.Array).Len()
		st.need(c.Sle(c.BV(64, uint64(n)), s.Len), "cannot convert slice to array pointer: length too short")
		if s.Obj == 0 {
			st.set(fr, in, Ptr{})
		} else {
			off := st.constInt(s.Off, "slice offset")
			if off != 0 {
				unsupported("SliceToArrayPointer with non-zero offset")
			}
			st.set(fr, in, Ptr{Obj: s.Obj, Path: s.Path})
		}
		fr.IP++
	case *ssa.Defer:
		fn, args := ex.resolveCall(st, fr, in.Common())
		fr.Defers = append(fr.Defers, deferred{fn, args})
		fr.IP++
	case *ssa.Extract:
		st.set(fr, in, st.get(fr, in.Tuple).(TupleV)[in.Index])
		fr.IP++
	case *ssa.Field:
		st.set(fr, in, st.get(fr, in.X).(StructV)[in.Field])
		fr.IP++
	case *ssa.FieldAddr:
		p := st.get(fr, in.X).(Ptr)
		if p.IsNil() {
			ex.runtimePanic("invalid memory address or nil pointer dereference")
		}
		if p.Sym != nil {
			p = st.concPtr(p)
		}
		st.set(fr, in, Ptr{Obj: p.Obj, Path: appendPath(p.Path, in.Field)})
		fr.IP++
	case *ssa.Go:
		ex.execGo(st, fr, in)
	case *ssa.If:
		cond := st.get(fr, in.Cond).(*Term)
		if _, isKnown := st.known(cond); !isKnown && !ex.NoIfConv && ex.ifConvert(st, fr, cond) {
			return
		}
		if st.decide(cond) {
			ex.jump(st, fr, fr.Block.Succs[0])
		} else {
			ex.jump(st, fr, fr.Block.Succs[1])
		}
	case *ssa.Index:
		st.set(fr, in, ex.index(st, st.get(fr, in.X), st.get(fr, in.Index).(*Term), in.Index.Type()))
		fr.IP++
	case *ssa.IndexAddr:
		st.set(fr, in, ex.indexAddr(st, st.get(fr, in.X), st.get(fr, in.Index).(*Term), in.Index.Type(), in.X.Type()))
		fr.IP++
	case *ssa.Jump:
		ex.jump(st, fr, fr.Block.Succs[0])
	case *ssa.Lookup:
		st.set(fr, in, ex.lookup(st, fr, in))
		fr.IP++
	case *ssa.MakeChan:
		n := st.constInt(st.get(fr, in.Size).(*Term), "chan size")
		id := st.alloc(nil, in.Type())
		o := *st.heap[id]
		o.Chan = &ChanData{Cap: int(n), Elem: in.Type().Underlying().(*types.Chan).Elem(), Env: ex.Spec != nil && ex.Spec.EnvChans}
		st.heap[id] = &o
		st.set(fr, in, ChanV{Obj: id})
		fr.IP++
	case *ssa.MakeClosure:
		binds := make([]Value, len(in.Bindings))
		for i, b := range in.Bindings {
			binds[i] = st.get(fr, b)
		}
		st.set(fr, in, FuncV{Fn: in.Fn.(*ssa.Function), Binds: binds})
		fr.IP++
	case *ssa.MakeInterface:
		st.set(fr, in, IfaceV{T: in.X.Type(), V: st.get(fr, in.X)})
		fr.IP++
	case *ssa.MakeMap:
		if in.Reserve != nil {
			// make(map[K]V, n): the runtime sizes the bucket array from the hint (a negative or absurd hint is
			// ignored by the runtime, everything in between is really allocated)
			n := ex.toInt64(st.get(fr, in.Reserve).(*Term), in.Reserve.Type())
			if !n.IsConst() {
				if !st.decide(ex.Ctx.Sle(n, ex.i64(int64(ex.allocLimit())))) {
					if st.decide(ex.Ctx.Sle(n, ex.i64(1<<40))) {
						ex.wildAlloc(st, n)
					}
				}
			} else if int64(n.V) > 1<<22 && int64(n.V) < 1<<40 {
				ex.wildAlloc(st, n)
			}
		}
		st.set(fr, in, st.newMap(in.Type()))
		fr.IP++
	case *ssa.MakeSlice:
		st.set(fr, in, ex.makeSlice(st, in.Type(), st.get(fr, in.Len).(*Term), st.get(fr, in.Cap).(*Term), in.Len.Type(), in.Cap.Type()))
		fr.IP++
	case *ssa.MapUpdate:
		m := st.get(fr, in.Map).(MapV)
		if m.Obj == 0 {
			panic(goPanic{IfaceV{T: ex.rtErrType, V: conStr("assignment to entry in nil map")}})
		}
		st.mapUpdate(m, st.get(fr, in.Key), st.get(fr, in.Value))
		fr.IP++
	case *ssa.Next:
		st.set(fr, in, ex.next(st, fr, in))
		fr.IP++
	case *ssa.Range:
		st.set(fr, in, ex.rangeIter(st, st.get(fr, in.X), in.X.Type()))
		fr.IP++
	case *ssa.Panic:
		panic(goPanic{st.get(fr, in.X)})
	case *ssa.Phi:
		panic(abort{"internal", "phi executed"})
	case *ssa.Return:
		var res Value
		switch len(in.Results) {
		case 0:
		case 1:
			res = st.get(fr, in.Results[0])
		default:
			tv := make(TupleV, len(in.Results))
			for i, r := range in.Results {
				tv[i] = st.get(fr, r)
			}
			res = tv
		}
		if fr.Panicking && fr.Recovered {
			fr.Panicking = false
		}
		ex.doReturn(st, fr, res)
	case *ssa.RunDefers:
		fr.RunningDefers = true
		fr.AfterDefers = 0
	case *ssa.Select:
		ex.execSelect(st, fr, in)
	case *ssa.Send:
		ex.execSend(st, fr, in)
	case *ssa.Slice:
		st.set(fr, in, ex.sliceOp(st, fr, in))
		fr.IP++
	case *ssa.Store:
		p := st.get(fr, in.Addr).(Ptr)
		st.store(p, st.get(fr, in.Val))
		fr.IP++
	case *ssa.TypeAssert:
		st.set(fr, in, ex.typeAssert(st, in, st.get(fr, in.X)))
		fr.IP++
	default:
		unsupported("instruction %T", instr)
	}
}

// resolveCall evaluates callee and arguments of a call (including invoke mode).
func (ex *Exec) resolveCall(st *State, fr *Frame, cc *ssa.CallCommon) (FuncV, []Value) {
	var args []Value
	var fn FuncV
	if cc.IsInvoke() {
		recv := st.get(fr, cc.Value)
		iv, ok := recv.(IfaceV)
		if !ok {
			panic(abort{"internal", fmt.Sprintf("invoke on %T", recv)})
		}
		if iv.T == nil {
			ex.runtimePanic("invalid memory address or nil pointer dereference")
		}
		if rt, isRT := iv.V.(RTypeV); isRT {
			fn = FuncV{Native: "reflect.Type." + cc.Method.Name(), Recv: rt}
		} else {
			m := ex.Prog.LookupMethod(iv.T, cc.Method.Pkg(), cc.Method.Name())
			if m == nil {
				unsupported("method %s not found on %s", cc.Method.Name(), iv.T)
			}
			fn = FuncV{Fn: m}
			args = append(args, iv.V)
		}
	} else {
		v := st.get(fr, cc.Value)
		f, ok := v.(FuncV)
		if !ok {
			panic(abort{"internal", fmt.Sprintf("call of %T", v)})
		}
		fn = f
	}
	for _, a := range cc.Args {
		args = append(args, st.get(fr, a))
	}
	return fn, args
}

func (ex *Exec) execCall(st *State, fr *Frame, cc *ssa.CallCommon, retTo ssa.Value, site ssa.CallInstruction) {
	fn, args := ex.resolveCall(st, fr, cc)
	ex.callValue(st, fn, args, retTo, site)
}

func (ex *Exec) execGo(st *State, fr *Frame, in *ssa.Go) {
	fn, args := ex.resolveCall(st, fr, in.Common())
	name := "?"
	if fn.Fn != nil {
		name = fn.Fn.String()
	}
	inline := false
	if ex.Spec != nil {
		for _, p := range ex.Spec.InlineGo {
			if p == name || p == "*" {
				inline = true
			}
		}
		if stub, ok := ex.Spec.Stubs[name]; ok && stub != "" {
			inline = true
		}
	}
	st.events = append(st.events, Event{Kind: "go:" + name, Args: args})
	if ex.Spec != nil && fn.Fn != nil {
		for _, p := range ex.Spec.DeferGo {
			if p == name {
				// a goroutine that runs as late as the goroutine under analysis allows: when that one blocks
				// (st.block), waits for a WaitGroup, or when the harness calls vRunPending
				st.pendingGo = append(append([]pendingGo(nil), st.pendingGo...), pendingGo{fn, args})
				fr.IP++
				return
			}
		}
	}
	if inline {
		ex.callValue(st, fn, args, nil, in)
		return
	}
	fr.IP++
}

// ---- memory ----

func (st *State) concPtr(p Ptr) Ptr {
	if p.Sym == nil {
		return p
	}
	v := st.concretize(p.Sym, st.ex.MaxConc)
	return Ptr{Obj: p.Obj, Path: appendPath(p.Path, int(v)), RT: p.RT}
}

func (st *State) load(p Ptr) Value {
	if p.IsNil() {
		st.ex.runtimePanic("invalid memory address or nil pointer dereference")
	}
	o := st.obj(p.Obj)
	if p.RT != nil {
		return st.loadReinterp(p, o)
	}
	if p.Sym != nil {
		arr, ok := getPath(o.Val, p.Path).(ArrayV)
		if !ok {
			panic(abort{"internal", "symbolic pointer into non-array"})
		}
		return st.selectCell(arr, p.Sym)
	}
	return getPath(o.Val, p.Path)
}

// selectCell reads arr[idx] for symbolic idx.
func (st *State) selectCell(arr ArrayV, idx *Term) Value {
	c := st.ex.Ctx
	if idx.IsConst() {
		return arr[idx.V]
	}
	if len(arr) == 0 {
		panic(abort{"internal", "select from empty array"})
	}
	if _, ok := arr[0].(*Term); ok {
		allT := true
		for _, e := range arr {
			if _, ok := e.(*Term); !ok {
				allT = false
				break
			}
		}
		if allT {
			res := arr[len(arr)-1].(*Term)
			for i := len(arr) - 2; i >= 0; i-- {
				res = c.Ite(c.Eq(idx, c.BV(64, uint64(i))), arr[i].(*Term), res)
			}
			return res
		}
	}
	v := st.concretize(idx, st.ex.MaxConc)
	return arr[v]
}

func (st *State) store(p Ptr, v Value) {
	if p.IsNil() {
		st.ex.runtimePanic("invalid memory address or nil pointer dereference")
	}
	c := st.ex.Ctx
	o := st.obj(p.Obj)
	if p.RT != nil {
		st.storeReinterp(p, o, v)
		return
	}
	if p.Sym != nil {
		arr, ok := getPath(o.Val, p.Path).(ArrayV)
		if !ok {
			panic(abort{"internal", "symbolic pointer into non-array"})
		}
		if vt, isT := v.(*Term); isT {
			n := make(ArrayV, len(arr))
			allT := true
			for i, e := range arr {
				et, ok := e.(*Term)
				if !ok {
					allT = false
					break
				}
				n[i] = c.Ite(c.Eq(p.Sym, c.BV(64, uint64(i))), vt, et)
			}
			if allT {
				st.setObjVal(p.Obj, setPath(o.Val, p.Path, n))
				return
			}
		}
		p = st.concPtr(p)
	}
	st.setObjVal(p.Obj, setPath(o.Val, p.Path, v))
}

func (ex *Exec) unop(st *State, fr *Frame, in *ssa.UnOp) Value {
	c := ex.Ctx
	x := st.get(fr, in.X)
	switch in.Op {
	case token.MUL:
		return st.load(x.(Ptr))
	case token.NOT:
		return c.Not(x.(*Term))
	case token.SUB:
		if w, ok := isFloat(in.X.Type()); ok {
			t := x.(*Term)
			// flip sign bit
			return c.BXor(t, c.BV(w, uint64(1)<<uint(w-1)))
		}
		return c.Neg(x.(*Term))
	case token.XOR:
		return c.BNot(x.(*Term))
	case token.ARROW:
		return ex.recv(st, fr, x.(ChanV), in.CommaOk, in.Type())
	}
	unsupported("unop %s", in.Op)
	return nil
}
