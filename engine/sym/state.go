package sym

import (
	"fmt"
	"go/types"
	"math/big"
	"sort"

	"golang.org/x/tools/go/ssa"
)

type Status int

const (
	Running Status = iota
	Done           // entry function returned
	Panicked       // a Go panic escaped the entry function
	Blocked        // goroutine blocked forever
	Infeasible     // assumption false / path infeasible
	Aborted        // unsupported / unwinding / internal
)

type deferred struct {
	fn   FuncV
	args []Value
}

type Frame struct {
	Fn        *ssa.Function
	Info      *fnInfo
	Regs      []Value
	Block     *ssa.BasicBlock
	Prev      *ssa.BasicBlock
	IP        int
	Defers    []deferred
	Panicking bool
	PanicVal  Value
	Recovered bool
	RunningDefers bool
	AfterDefers   int // 0: continue at IP (RunDefers instr); 1: unwinding
	RetTo     ssa.Value // register in caller receiving the result (nil = discard)
	Visits    map[int]int // loop header visit counts (block index -> count)
	Native    string      // non-empty: continuation tag for intrinsic frames
}

type Event struct {
	Kind string
	Args []Value
}

type Input struct {
	Name string
	Term *Term
	Kind string // u8.. i64, bool, bytes-cell, len
}

type State struct {
	ex      *Exec
	heap    map[int]*HObj
	nextObj int
	frames  []*Frame
	pc      []*Term
	facts   map[int]bool
	conc    map[int]uint64
	status  Status
	abortK  string
	abortM  string
	panicV  Value
	events  []Event
	inputs  []Input
	nameCnt map[string]int
	observed []Observation
	locks   map[string]int // ptrKey -> 0 free,1 locked (by us), for sync.Mutex tracking
	once    map[string]bool
	ghost   map[string]Value
	pendingGo []pendingGo
	steps   int
	id      int
	depth   int // number of forks on this path
	vdepth  int    // number of value forks (forkValues) on this path
	vhash   uint64 // hash of the values chosen at those forks (shard key)
	pinned  map[string]*big.Int // variables equal to a constant on this path (copy on write)
	pinnedIDs []int
}

type Observation struct {
	Label string
	Val   Value
}

func (st *State) clone() *State {
	n := *st
	n.heap = make(map[int]*HObj, len(st.heap))
	for k, v := range st.heap {
		n.heap[k] = v
	}
	n.frames = make([]*Frame, len(st.frames))
	for i, f := range st.frames {
		nf := *f
		nf.Regs = append([]Value(nil), f.Regs...)
		nf.Defers = append([]deferred(nil), f.Defers...)
		if f.Visits != nil {
			nf.Visits = make(map[int]int, len(f.Visits))
			for k, v := range f.Visits {
				nf.Visits[k] = v
			}
		}
		n.frames[i] = &nf
	}
	n.pc = append([]*Term(nil), st.pc...)
	n.facts = make(map[int]bool, len(st.facts))
	for k, v := range st.facts {
		n.facts[k] = v
	}
	n.conc = make(map[int]uint64, len(st.conc))
	for k, v := range st.conc {
		n.conc[k] = v
	}
	n.events = append([]Event(nil), st.events...)
	n.inputs = append([]Input(nil), st.inputs...)
	n.observed = append([]Observation(nil), st.observed...)
	n.nameCnt = make(map[string]int, len(st.nameCnt))
	for k, v := range st.nameCnt {
		n.nameCnt[k] = v
	}
	n.locks = make(map[string]int, len(st.locks))
	for k, v := range st.locks {
		n.locks[k] = v
	}
	n.once = make(map[string]bool, len(st.once))
	for k, v := range st.once {
		n.once[k] = v
	}
	n.ghost = make(map[string]Value, len(st.ghost))
	for k, v := range st.ghost {
		n.ghost[k] = v
	}
	st.ex.stateSeq++
	n.id = st.ex.stateSeq
	return &n
}

func (st *State) top() *Frame { return st.frames[len(st.frames)-1] }

// ---- heap ----

func (st *State) alloc(val Value, typ types.Type) int {
	st.nextObj++
	st.heap[st.nextObj] = &HObj{Val: val, Typ: typ}
	return st.nextObj
}

func (st *State) obj(id int) *HObj {
	o, ok := st.heap[id]
	if !ok {
		if g, isG := st.ex.globalByID[id]; isG {
			// lazily zero-initialised global
			if !st.ex.pkgInitOK(g.Pkg) {
				unsupported("read of global %s of package %s whose initialiser was not run", g.Name(), g.Pkg.Pkg.Path())
			}
			o = &HObj{Val: st.ex.zero(g.Type().(*types.Pointer).Elem()), Typ: g.Type().(*types.Pointer).Elem()}
			st.heap[id] = o
			return o
		}
		panic(abort{"internal", fmt.Sprintf("dangling object id %d", id)})
	}
	return o
}

func getPath(v Value, path []int) Value {
	for _, i := range path {
		switch x := v.(type) {
		case StructV:
			v = x[i]
		case ArrayV:
			if i < 0 || i >= len(x) {
				panic(abort{"internal", fmt.Sprintf("getPath index %d out of %d", i, len(x))})
			}
			v = x[i]
		default:
			panic(abort{"internal", fmt.Sprintf("getPath through %T", v)})
		}
	}
	return v
}

func setPath(v Value, path []int, nv Value) Value {
	if len(path) == 0 {
		return nv
	}
	i := path[0]
	switch x := v.(type) {
	case StructV:
		c := make(StructV, len(x))
		copy(c, x)
		c[i] = setPath(x[i], path[1:], nv)
		return c
	case ArrayV:
		if i < 0 || i >= len(x) {
			panic(abort{"internal", fmt.Sprintf("setPath index %d out of %d", i, len(x))})
		}
		c := make(ArrayV, len(x))
		copy(c, x)
		c[i] = setPath(x[i], path[1:], nv)
		return c
	}
	panic(abort{"internal", fmt.Sprintf("setPath through %T", v)})
}

func (st *State) setObjVal(id int, v Value) {
	o := st.obj(id)
	n := *o
	n.Val = v
	st.heap[id] = &n
}

// ---- decisions ----

func (st *State) addPC(c *Term) {
	if c.IsTrue() {
		return
	}
	st.pc = append(st.pc, c)
	st.noteFact(c, true)
}

func (st *State) noteFact(c *Term, v bool) {
	for c.Op == OpNot {
		c = c.Args[0]
		v = !v
	}
	st.facts[c.ID] = v
	// var == const pins the variable (used to fold later conditions without the solver)
	if v && c.Op == OpEq {
		a, b := c.Args[0], c.Args[1]
		if a.Op == OpVar && b.IsConst() {
			st.pinVar(a, b)
		} else if b.Op == OpVar && a.IsConst() {
			st.pinVar(b, a)
		}
	}
	// conjunctions known true / disjunctions known false decompose
	if c.Op == OpAnd && v {
		st.noteFact(c.Args[0], true)
		st.noteFact(c.Args[1], true)
	}
	if c.Op == OpOr && !v {
		st.noteFact(c.Args[0], false)
		st.noteFact(c.Args[1], false)
	}
}

func (st *State) pinVar(v, k *Term) {
	n := make(map[string]*big.Int, len(st.pinned)+1)
	for kk, vv := range st.pinned {
		n[kk] = vv
	}
	n[v.Name] = k.constBig()
	st.pinned = n
	st.pinnedIDs = append(st.pinnedIDs[:len(st.pinnedIDs):len(st.pinnedIDs)], v.ID)
}

// foldPinned evaluates cond when every variable in it is pinned to a constant on this path.
func (st *State) foldPinned(cond *Term) (bool, bool) {
	if len(st.pinned) == 0 {
		return false, false
	}
	vars := st.ex.termVars(cond)
	if len(vars) == 0 || len(vars) > 8 {
		return false, false
	}
	for _, id := range vars {
		ok := false
		for _, p := range st.pinnedIDs {
			if p == id {
				ok = true
				break
			}
		}
		if !ok {
			return false, false
		}
	}
	r := st.ex.Ctx.Eval(cond, st.pinned, nil)
	return r.Sign() != 0, true
}

// simp replaces a term by a constant when every variable in it is pinned on this path.
func (st *State) simp(t *Term) *Term {
	if t == nil || t.IsConst() || len(st.pinned) == 0 {
		return t
	}
	vars := st.ex.termVars(t)
	if len(vars) == 0 || len(vars) > 8 {
		return t
	}
	for _, id := range vars {
		ok := false
		for _, p := range st.pinnedIDs {
			if p == id {
				ok = true
				break
			}
		}
		if !ok {
			return t
		}
	}
	r := st.ex.Ctx.Eval(t, st.pinned, nil)
	if t.W == 0 {
		return st.ex.Ctx.Bool(r.Sign() != 0)
	}
	return st.ex.Ctx.BVBig(t.W, r)
}

func (st *State) simpSlice(s SliceV) SliceV {
	s.Off, s.Len, s.Cap = st.simp(s.Off), st.simp(s.Len), st.simp(s.Cap)
	return s
}

func (st *State) known(c *Term) (bool, bool) {
	neg := false
	for c.Op == OpNot {
		c = c.Args[0]
		neg = !neg
	}
	if c.IsConst() {
		return (c.V == 1) != neg, true
	}
	if v, ok := st.facts[c.ID]; ok {
		return v != neg, true
	}
	return false, false
}

// decide returns the truth of cond on this path, forking if needed.
func (st *State) decide(cond *Term) bool {
	if cond.W != 0 {
		panic(abort{"internal", "decide on non-bool"})
	}
	if v, ok := st.known(cond); ok {
		return v
	}
	// try structural simplification by known facts
	switch cond.Op {
	case OpAnd:
		if v, ok := st.known(cond.Args[0]); ok {
			if !v {
				return false
			}
			return st.decide(cond.Args[1])
		}
		if v, ok := st.known(cond.Args[1]); ok {
			if !v {
				return false
			}
			return st.decide(cond.Args[0])
		}
	case OpOr:
		if v, ok := st.known(cond.Args[0]); ok {
			if v {
				return true
			}
			return st.decide(cond.Args[1])
		}
		if v, ok := st.known(cond.Args[1]); ok {
			if v {
				return true
			}
			return st.decide(cond.Args[0])
		}
	}
	if v, ok := st.foldPinned(cond); ok {
		st.noteFact(cond, v)
		return v
	}
	panic(forkReq{cond})
}

// concretize returns the concrete value of t on this path, forking over all feasible values.
func (st *State) concretize(t *Term, max int) uint64 {
	if t.IsConst() {
		return t.V
	}
	if v, ok := st.conc[t.ID]; ok {
		return v
	}
	panic(concReq{t, max})
}

// mustConst is concretize for values that must already be constants.
func (st *State) constInt(t *Term, what string) int64 {
	if t.IsConst() {
		return signed64(t.W, t.V)
	}
	return signed64(t.W, st.concretize(t, st.ex.MaxConc))
}

// ---- solver helpers ----

// termVars returns the sorted ids of variables (and UF applications) under t.
func (ex *Exec) termVars(t *Term) []int {
	if v, ok := ex.varCache[t.ID]; ok {
		return v
	}
	var res []int
	switch t.Op {
	case OpConst:
	case OpVar:
		res = []int{t.ID}
	default:
		set := map[int]bool{}
		for _, a := range t.Args {
			for _, v := range ex.termVars(a) {
				set[v] = true
			}
		}
		if t.Op == OpUF {
			// all applications of one UF are linked through a pseudo variable
			set[-1-ufIndex(ex, t.Name)] = true
		}
		res = make([]int, 0, len(set))
		for v := range set {
			res = append(res, v)
		}
		sort.Ints(res)
	}
	ex.varCache[t.ID] = res
	return res
}

func ufIndex(ex *Exec, name string) int {
	if i, ok := ex.ufIdx[name]; ok {
		return i
	}
	i := len(ex.ufIdx)
	ex.ufIdx[name] = i
	return i
}

// slice returns the conjuncts of pc transitively sharing variables with q.
func (st *State) slicePC(q *Term) []*Term {
	ex := st.ex
	want := map[int]bool{}
	for _, v := range ex.termVars(q) {
		want[v] = true
	}
	used := make([]bool, len(st.pc))
	var out []*Term
	changed := true
	for changed {
		changed = false
		for i, c := range st.pc {
			if used[i] {
				continue
			}
			vs := ex.termVars(c)
			hit := false
			for _, v := range vs {
				if want[v] {
					hit = true
					break
				}
			}
			if hit {
				used[i] = true
				out = append(out, c)
				for _, v := range vs {
					if !want[v] {
						want[v] = true
						changed = true
					}
				}
			}
		}
	}
	return out
}

// feasible asks whether pc ∧ q is satisfiable (sliced).
func (st *State) feasible(q *Term) Result {
	if q.IsFalse() {
		return Unsat
	}
	as := append(st.slicePC(q), q)
	r, _ := st.ex.check(as, nil)
	return r
}

// feasibleFinal is feasible with the obligation-grade portfolio.
func (st *State) feasibleFinal(q *Term) Result {
	if q.IsFalse() {
		return Unsat
	}
	as := append(st.slicePC(q), q)
	r, _ := st.ex.checkFinal(as, nil)
	return r
}

// model returns values of all inputs for pc ∧ q (full pc).
func (st *State) solveFull(q *Term) (Result, map[string]*big.Int) {
	as := append(append([]*Term(nil), st.pc...), q)
	var want []*Term
	for _, in := range st.inputs {
		want = append(want, in.Term)
	}
	r, m := st.ex.checkFinal(as, want)
	if r != Sat {
		return r, nil
	}
	res := map[string]*big.Int{}
	for _, in := range st.inputs {
		if v, ok := m[in.Term.ID]; ok {
			res[in.Term.Name] = v
		}
	}
	return r, res
}
