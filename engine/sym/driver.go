package sym

import (
	"strconv"
	"encoding/json"
	"fmt"
	"go/types"
	"os"
	"path/filepath"
	"sort"
	"strings"
	"sync"
	"time"

	"golang.org/x/tools/go/packages"
	"golang.org/x/tools/go/ssa"
	"golang.org/x/tools/go/ssa/ssautil"
)

// PropertySpec is /verif/harness/<ID>.json.
type PropertySpec struct {
	Property string      `json:"property"`
	Entries  []EntrySpec `json:"entries"`
	Notes    []string    `json:"assumptions"`
	InitPkgs []string    `json:"init_pkgs"`
	LabelPrefixes []string `json:"label_prefixes"`
}

// LoadSpec reads a property spec and resolves entries of the form {"name": n, "ref": "Cxx"}: the entry n of
// harness/Cxx.json is used (one definition for an entry that several properties run; only the label prefix
// differs between the runs).
func LoadSpec(path string) (*PropertySpec, error) {
	b, err := os.ReadFile(path)
	if err != nil {
		return nil, err
	}
	var spec PropertySpec
	if err := json.Unmarshal(b, &spec); err != nil {
		return nil, fmt.Errorf("%s: %v", path, err)
	}
	cache := map[string]*PropertySpec{}
	for i, e := range spec.Entries {
		if e.Ref == "" {
			continue
		}
		other, ok := cache[e.Ref]
		if !ok {
			ob, err := os.ReadFile(filepath.Join(filepath.Dir(path), e.Ref+".json"))
			if err != nil {
				return nil, err
			}
			other = &PropertySpec{}
			if err := json.Unmarshal(ob, other); err != nil {
				return nil, fmt.Errorf("%s.json: %v", e.Ref, err)
			}
			cache[e.Ref] = other
		}
		found := false
		for _, oe := range other.Entries {
			if oe.Name == e.Name && oe.Ref == "" && (e.Family == "" || e.Family == oe.Family) {
				spec.Entries[i] = oe
				found = true
				break
			}
		}
		if !found {
			return nil, fmt.Errorf("%s: entry %s not found in %s.json", path, e.Name, e.Ref)
		}
	}
	return &spec, nil
}

// HarnessDirs maps harness sub-directory to the repo-relative package directory.
var HarnessDirs = map[string]string{
	"gocql":   ".",
	"streams": "internal/streams",
	"murmur":  "internal/murmur",
	"lru":     "internal/lru",
	"lz4":     "lz4", // a Go module of its own (github.com/gocql/gocql/lz4): loaded separately, see moduleOf
}

// moduleOf names the nested module a package belongs to ("" = the root module).
func moduleOf(pkgPath string) string {
	if pkgPath == "github.com/gocql/gocql/lz4" {
		return "lz4"
	}
	return ""
}

type Loaded struct {
	Prog *ssa.Program
	Pkgs map[string]*ssa.Package // by import path
	Fset interface{}
}

// BuildOverlay maps harness files into the repo tree (virtual files). Test files only when withTests.
func BuildOverlay(repo, harnessRoot string, withTests bool) (map[string]string, error) {
	ov := map[string]string{}
	for sub, rel := range HarnessDirs {
		files, _ := filepath.Glob(filepath.Join(harnessRoot, sub, "*.go"))
		for _, f := range files {
			base := filepath.Base(f)
			if strings.HasSuffix(base, "_test.go") && !withTests {
				continue
			}
			ov[filepath.Join(repo, rel, base)] = f
		}
	}
	return ov, nil
}

func LoadProgram(repo, harnessRoot string, tags []string, module string) (*Loaded, error) {
	ov, err := BuildOverlay(repo, harnessRoot, false)
	if err != nil {
		return nil, err
	}
	overlay := map[string][]byte{}
	modDir := repo
	if module != "" {
		modDir = filepath.Join(repo, HarnessDirs[module])
	}
	for virt, real := range ov {
		// harness files of nested modules only take part in the load of that module
		inNested := strings.HasPrefix(virt, filepath.Join(repo, "lz4")+string(filepath.Separator))
		if inNested != (module == "lz4") {
			continue
		}
		b, err := os.ReadFile(real)
		if err != nil {
			return nil, err
		}
		overlay[virt] = b
	}
	cfg := &packages.Config{
		Mode:    packages.LoadAllSyntax,
		Dir:     modDir,
		Overlay: overlay,
		Env:     append(os.Environ(), "GOFLAGS=-mod=mod", "GOPROXY=off", "GOSUMDB=off", "GOTOOLCHAIN=local"),
	}
	if len(tags) > 0 {
		cfg.BuildFlags = []string{"-tags=" + strings.Join(tags, ",")}
	}
	var pats []string
	seen := map[string]bool{}
	for sub, rel := range HarnessDirs {
		if sub == "lz4" {
			continue
		}
		if !seen[rel] {
			seen[rel] = true
			pats = append(pats, "./"+rel)
		}
	}
	sort.Strings(pats)
	if module != "" {
		pats = []string{"."}
	}
	pkgs, err := packages.Load(cfg, pats...)
	if err != nil {
		return nil, err
	}
	var errs []string
	packages.Visit(pkgs, nil, func(p *packages.Package) {
		for _, e := range p.Errors {
			errs = append(errs, e.Error())
		}
	})
	if len(errs) > 0 {
		return nil, fmt.Errorf("package errors:\n%s", strings.Join(errs, "\n"))
	}
	prog, _ := ssautil.AllPackages(pkgs, ssa.InstantiateGenerics)
	prog.Build()
	l := &Loaded{Prog: prog, Pkgs: map[string]*ssa.Package{}}
	for _, p := range prog.AllPackages() {
		l.Pkgs[p.Pkg.Path()] = p
	}
	return l, nil
}

var defaultInitPkgs = []string{
	"errors", "io", "sort", "strconv", "encoding/binary", "bytes", "container/list", "unicode/utf8", "strings", "unicode",
	"gopkg.in/inf.v0", "math/big", "time", "context", "net", "math", "internal/oserror", "internal/cpu", "io/fs", "math/bits", "internal/bytealg", "internal/itoa", "internal/stringslite", "unicode/utf16", "math/rand", "internal/poll", "internal/testlog", "internal/syscall/unix", "internal/syscall/execenv", "internal/filepathlite", "path", "internal/singleflight", "internal/nettrace", "vendor/golang.org/x/net/dns/dnsmessage", "internal/intern", "sync", "sync/atomic", "internal/race", "crypto/rand", "regexp", "net/netip", "internal/godebug", "internal/bisect", "unique", "internal/byteorder",
	"github.com/gocql/gocql", "github.com/gocql/gocql/internal/streams", "github.com/gocql/gocql/internal/murmur", "github.com/gocql/gocql/internal/lru",
}

func NewExec(l *Loaded, spec *EntrySpec, bounds map[string]int, solverKind string, timeout time.Duration) (*Exec, error) {
	ex := &Exec{
		Prog: l.Prog, Ctx: NewCtx(), Spec: spec, Bounds: bounds, MaxConc: 64,
		fnInfos: map[*ssa.Function]*fnInfo{}, globalID: map[*ssa.Global]int{}, globalByID: map[int]*ssa.Global{},
		pkgInit: map[*ssa.Package]int{}, varCache: map[int][]int{}, ufIdx: map[string]int{},
		FnsEntered: map[string]bool{},
	}
	if v, ok := bounds["max_conc"]; ok {
		ex.MaxConc = v
	}
	ex.primary = solverKind
	ex.fastTimeout = 3 * time.Second
	ex.finalTimeout = timeout
	if ex.solver(solverKind, false) == nil {
		return nil, fmt.Errorf("cannot start solver %s", solverKind)
	}
	rp := l.Pkgs["runtime"]
	if rp == nil {
		return nil, fmt.Errorf("runtime package not loaded")
	}
	ex.rtErrType = rp.Type("errorString").Type()
	ex.initIntrinsics()
	ex.initBig()
	ex.HarnessPkg = l.Pkgs[spec.Pkg]
	if ex.HarnessPkg == nil {
		return nil, fmt.Errorf("harness package %s not loaded", spec.Pkg)
	}
	return ex, nil
}

func (ex *Exec) newState() *State {
	return &State{
		ex: ex, heap: map[int]*HObj{}, facts: map[int]bool{}, conc: map[int]uint64{},
		nameCnt: map[string]int{}, locks: map[string]int{}, once: map[string]bool{}, ghost: map[string]Value{},
	}
}

// RunInits interprets the package initialisers of the whitelisted packages concretely.
func (ex *Exec) RunInits(l *Loaded, extra []string) error {
	st := ex.newState()
	want := map[string]bool{}
	for _, p := range defaultInitPkgs {
		want[p] = true
	}
	for _, p := range extra {
		want[p] = true
	}
	ex.Results = &EntryResult{Labels: map[string]*LabelStat{}, Reach: map[string]int{}, SolverS: map[string]float64{}}
	saveSpec := ex.Spec
	ex.Spec = &EntrySpec{MaxSteps: 50000000, Unwind: 10000000}
	ex.inInit = true
	defer func() { ex.Spec = saveSpec; ex.inInit = false }()
	var runInit func(p *ssa.Package) error
	runInit = func(p *ssa.Package) error {
		if ex.pkgInit[p] != 0 {
			return nil
		}
		ex.pkgInit[p] = 1
		// dependencies first (only whitelisted ones)
		for _, imp := range p.Pkg.Imports() {
			if want[imp.Path()] {
				if ip := l.Pkgs[imp.Path()]; ip != nil {
					if err := runInit(ip); err != nil {
						return err
					}
				}
			}
		}
		initFn := p.Func("init")
		if pp := p.Pkg.Path(); pp == "math/big" || pp == "unique" || pp == "crypto/rand" || pp == "regexp" {
			// big.Int is an engine intrinsic (BigV); its package state is never used
			ex.pkgInit[p] = 2
			return nil
		}
		if initFn == nil || initFn.Blocks == nil {
			ex.pkgInit[p] = 2
			return nil
		}
		st.status = Running
		st.frames = []*Frame{ex.newFrame(initFn, nil, nil, nil)}
		st.steps = 0
		for st.status == Running {
			succ := ex.runPath(st)
			if len(succ) != 1 {
				ex.pkgInit[p] = 3
				return fmt.Errorf("init of %s forked", p.Pkg.Path())
			}
			st = succ[0]
		}
		if st.status != Done {
			ex.pkgInit[p] = 3
			msg := st.abortM
			if st.status == Panicked {
				msg = "panic: " + ex.describe(st, st.panicV)
			}
			return fmt.Errorf("init of %s failed: %s %s", p.Pkg.Path(), st.abortK, msg)
		}
		ex.pkgInit[p] = 2
		return nil
	}
	var names []string
	for n := range want {
		names = append(names, n)
	}
	sort.Strings(names)
	var firstErr error
	for _, n := range names {
		p := l.Pkgs[n]
		if p == nil {
			continue
		}
		if err := runInit(p); err != nil {
			if firstErr == nil {
				firstErr = err
			}
			fmt.Fprintf(os.Stderr, "ssasym: warning: %v\n", err)
			st.status = Running
		}
	}
	ex.baseHeap = st.heap
	ex.baseNext = st.nextObj
	ex.baseGhost = st.ghost
	ex.baseOnce = st.once
	ex.Steps = 0
	ex.Forks = 0
	ex.FnsEntered = map[string]bool{}
	return nil
}

// describe renders a value for diagnostics.
func (ex *Exec) describe(st *State, v Value) string {
	switch x := v.(type) {
	case nil:
		return "nil"
	case *Term:
		return x.String()
	case StrV:
		if x.Conc {
			return fmt.Sprintf("%q", x.S)
		}
		return "‹symbolic string›"
	case IfaceV:
		if x.T == nil {
			return "nil"
		}
		if p, ok := x.V.(Ptr); ok && !p.IsNil() {
			func() {
				defer func() { recover() }()
				inner := st.load(p)
				v = inner
			}()
			if v != nil {
				if _, same := v.(IfaceV); !same {
					return x.T.String() + "(" + ex.describe(st, v) + ")"
				}
			}
		}
		return x.T.String() + "(" + ex.describe(st, x.V) + ")"
	case StructV:
		var parts []string
		for _, f := range x {
			parts = append(parts, ex.describe(st, f))
		}
		return "{" + strings.Join(parts, " ") + "}"
	case Ptr:
		if x.IsNil() {
			return "nil"
		}
		return "&obj" + ptrKey(x)
	}
	return fmt.Sprintf("%T", v)
}

// skipInitCalls: calls to package initialisers from interpreted init functions.
func isPkgInit(f *ssa.Function) bool {
	return f.Name() == "init" && f.Synthetic == "package initializer"
}

func countUnlisted(cs []Counterexample) int {
	n := 0
	for _, c := range cs {
		if c.Known == "" {
			n++
		}
	}
	return n
}

// RunEntry explores all paths of the harness entry function.
func (ex *Exec) RunEntry(name string) *EntryResult {
	start := time.Now()
	res := &EntryResult{Entry: name, Bounds: ex.Bounds, Labels: map[string]*LabelStat{}, Reach: map[string]int{}, SolverS: map[string]float64{}}
	ex.Results = res
	fn := ex.HarnessPkg.Func(name)
	if fn == nil {
		res.Aborted = 1
		res.Aborts = []string{"entry function " + name + " not found"}
		return res
	}
	st := ex.newState()
	for k, v := range ex.baseHeap {
		st.heap[k] = v
	}
	st.nextObj = ex.baseNext
	for k, v := range ex.baseGhost {
		st.ghost[k] = v
	}
	for k, v := range ex.baseOnce {
		st.once[k] = v
	}
	st.frames = []*Frame{ex.newFrame(fn, nil, nil, nil)}
	work := []*State{st}
	maxPaths := 200000
	if ex.Spec.MaxPaths > 0 {
		maxPaths = ex.Spec.MaxPaths
	}
	abortSeen := map[string]bool{}
	for len(work) > 0 {
		s := work[len(work)-1]
		work = work[:len(work)-1]
		// enough confirmed-to-be-replayed counterexamples: the entry is red whatever the remaining paths
		// say; stop exploring (recorded, so that a clean run can never be the result of this cut)
		if nUnlisted := countUnlisted(res.CEX); nUnlisted >= 8 && res.Paths > 200 {
			res.StoppedAfterViolations = len(work) + 1
			break
		}
		if !ex.deadline.IsZero() && time.Now().After(ex.deadline) {
			res.Aborted++
			res.Aborts = append(res.Aborts, fmt.Sprintf("time limit reached with %d states pending", len(work)+1))
			break
		}
		succ := ex.runPath(s)
		for _, n := range succ {
			if n.status == Running {
				work = append(work, n)
				continue
			}
			res.Paths++
			if n.depth > res.MaxDepth {
				res.MaxDepth = n.depth
			}
			switch n.status {
			case Done:
				res.Done++
				if os.Getenv("VERIF_DUMPPATHS") != "" && res.Done%50 == 1 {
					fmt.Fprintf(os.Stderr, "---- path %d (depth %d)\n", res.Done, n.depth)
					for _, t := range n.pc {
						fmt.Fprintf(os.Stderr, "   %s\n", truncate(t.String(), 160))
					}
				}
				if res.Witness == nil {
					ex.recordWitness(n, res)
				}
			case Panicked:
				res.Panicked++
				if !ex.Spec.AllowPanic {
					// an escaped panic is an assertion failure (label "panic")
					n.status = Running
					func() {
						defer func() { recover() }()
						ex.assert(n, ex.Ctx.False, "no-panic", ex.describe(n, n.panicV))
					}()
					n.status = Panicked
				}
			case Blocked:
				res.Blocked++
				if ex.Spec.AllowBlock {
					// a server loop waiting for its next event: a normal end of the explored prefix
					break
				}
				if top := n.top(); top != nil && len(ex.Spec.AllowBlockIn) > 0 {
					// waiting is legitimate only in the named functions themselves (e.g. a request waiting for its
					// response); blocked anywhere below them (a callee that can never proceed) is a violation
					okIn := false
					for _, f := range ex.Spec.AllowBlockIn {
						okIn = okIn || f == top.Fn.String()
					}
					if okIn {
						break
					}
				}
				n.status = Running
				func() {
					defer func() { recover() }()
					ex.assert(n, ex.Ctx.False, "no-block", n.abortM)
				}()
				n.status = Blocked
			case Infeasible:
				res.Infeasible++
			case Aborted:
				if n.abortK == "stop" {
					res.Infeasible++
					if os.Getenv("VERIF_DUMPPATHS") != "" {
						fmt.Fprintf(os.Stderr, "---- path ended (stop): %s\n", truncate(n.abortM, 600))
					}
					break
				}
				res.Aborted++
				m := n.abortK + ": " + n.abortM
				if !abortSeen[m] && len(res.Aborts) < 20 {
					abortSeen[m] = true
					res.Aborts = append(res.Aborts, m)
				}
			}
		}
		if res.Paths > maxPaths {
			res.Aborted++
			res.Aborts = append(res.Aborts, fmt.Sprintf("path limit %d reached", maxPaths))
			break
		}
	}
	res.Steps = ex.Steps
	res.States = ex.stateSeq + 1
	res.Forks = ex.Forks
	res.Terms = ex.Ctx.NumTerms()
	for k, s2 := range ex.extra {
		res.SolverS[k] += s2.Time.Seconds()
		res.Queries += s2.Queries
		res.SolverErrors = append(res.SolverErrors, s2.Errors...)
	}
	for f := range ex.FnsEntered {
		res.Fns = append(res.Fns, f)
	}
	sort.Strings(res.Fns)
	res.WallS = time.Since(start).Seconds()
	return res
}

func (ex *Exec) recordWitness(st *State, res *EntryResult) {
	r, m := st.solveFull(ex.Ctx.True)
	if r != Sat {
		return
	}
	res.Witness = map[string]string{}
	for k, v := range m {
		res.Witness[k] = v.String()
	}
	for _, o := range st.observed {
		res.WitnessObs = append(res.WitnessObs, o.Label+"="+ex.evalObs(st, o.Val, m))
	}
}

// ---- top-level run ----

type RunConfig struct {
	Repo      string
	Harness   string
	SpecFile  string
	Tier      string
	Workers   int
	Only      string
	Trace     bool
	KnownFile string
}

type RunOutput struct {
	Spec    *PropertySpec
	Results []*EntryResult
	WallS   float64
	LoadS   float64
}

func Run(cfg RunConfig) (*RunOutput, error) {
	t0 := time.Now()
	specp, err := LoadSpec(cfg.SpecFile)
	if err != nil {
		return nil, err
	}
	spec := *specp
	if cfg.KnownFile != "" {
		if kb, err := os.ReadFile(cfg.KnownFile); err == nil {
			var kf struct {
				Findings []KnownFinding `json:"findings"`
			}
			if err := json.Unmarshal(kb, &kf); err != nil {
				return nil, fmt.Errorf("%s: %v", cfg.KnownFile, err)
			}
			KnownFindings = kf.Findings
		}
	}
	// group entries by tag set so each tag set is loaded once
	loads := map[string]*Loaded{}
	getLoad := func(tags []string, module string) (*Loaded, error) {
		k := module + "|" + strings.Join(tags, ",")
		if l, ok := loads[k]; ok {
			return l, nil
		}
		l, err := LoadProgram(cfg.Repo, cfg.Harness, tags, module)
		if err != nil {
			return nil, err
		}
		loads[k] = l
		return l, nil
	}
	type job struct {
		spec   EntrySpec
		bounds map[string]int
		l      *Loaded
	}
	var jobs []job
	for _, e := range spec.Entries {
		if cfg.Only != "" && !strings.Contains(e.Name, cfg.Only) {
			continue
		}
		if e.ThoroughOnly && cfg.Tier != "thorough" {
			continue
		}
		l, err := getLoad(e.Tags, moduleOf(e.Pkg))
		if err != nil {
			return nil, err
		}
		base := map[string]int{}
		for k, v := range e.Bounds {
			base[k] = v
		}
		if cfg.Tier == "thorough" {
			for k, v := range e.Thorough {
				base[k] = v
			}
		}
		insts := e.Instances
		if cfg.Tier == "thorough" && len(e.ThoroughInstances) > 0 {
			insts = e.ThoroughInstances
		}
		if len(insts) == 0 {
			jobs = append(jobs, job{e, base, l})
			continue
		}
		for _, in := range insts {
			bb := map[string]int{}
			for k, v := range base {
				bb[k] = v
			}
			for k, v := range in {
				bb[k] = v
			}
			// an instance with "shards": N is explored by N jobs; job i keeps exactly the paths whose first
			// shard_depth value-fork decisions (vChoose / concretisation values) hash to i (see forkValues)
			if n := bb["shards"]; n > 1 {
				if bb["shard_depth"] == 0 {
					bb["shard_depth"] = 3
				}
				for i := 0; i < n; i++ {
					b2 := map[string]int{"shard": i}
					for k, v := range bb {
						b2[k] = v
					}
					jobs = append(jobs, job{e, b2, l})
				}
				continue
			}
			jobs = append(jobs, job{e, bb, l})
		}
	}
	loadS := time.Since(t0).Seconds()
	results := make([]*EntryResult, len(jobs))
	var wg sync.WaitGroup
	sem := make(chan struct{}, cfg.Workers)
	for i := range jobs {
		wg.Add(1)
		go func(i int) {
			defer wg.Done()
			sem <- struct{}{}
			defer func() { <-sem }()
			j := jobs[i]
			results[i] = runJob(cfg, &spec, j.l, j.spec, j.bounds)
		}(i)
	}
	wg.Wait()
	return &RunOutput{Spec: &spec, Results: results, WallS: time.Since(t0).Seconds(), LoadS: loadS}, nil
}

func runJob(cfg RunConfig, ps *PropertySpec, l *Loaded, es EntrySpec, bounds map[string]int) (res *EntryResult) {
	defer func() {
		if r := recover(); r != nil {
			res = &EntryResult{Entry: es.Name, Bounds: bounds, Aborted: 1, Aborts: []string{fmt.Sprintf("engine panic: %v", r)},
				Labels: map[string]*LabelStat{}, Reach: map[string]int{}, SolverS: map[string]float64{}}
			if cfg.Trace {
				panic(r)
			}
		}
	}()
	kind := es.Solver
	if kind == "" {
		kind = "z3"
	}
	to := 60 * time.Second
	if cfg.Tier == "thorough" {
		to = 300 * time.Second
	}
	spec := es
	ex, err := NewExec(l, &spec, bounds, kind, to)
	if err != nil {
		return &EntryResult{Entry: es.Name, Bounds: bounds, Aborted: 1, Aborts: []string{err.Error()}, Labels: map[string]*LabelStat{}, Reach: map[string]int{}, SolverS: map[string]float64{}}
	}
	defer ex.closeSolvers()
	ex.Trace = cfg.Trace
	if os.Getenv("VERIF_FORKSITES") != "" {
		ex.ForkSites = map[string]int{}
		defer func() {
			type kv struct {
				k string
				v int
			}
			var l []kv
			for k, v := range ex.ForkSites {
				l = append(l, kv{k, v})
			}
			sort.Slice(l, func(i, j int) bool { return l[i].v > l[j].v })
			for i, e := range l {
				if i > 15 {
					break
				}
				fmt.Fprintf(os.Stderr, "forksite %6d %s\n", e.v, e.k)
			}
		}()
	}
	ex.Tier = cfg.Tier
	ex.LabelPrefixes = ps.LabelPrefixes
	if !es.NoInit {
		ex.RunInits(l, ps.InitPkgs)
	}
	limit := es.TimeoutS
	if limit == 0 {
		limit = 600
	}
	if cfg.Tier == "thorough" {
		limit *= 4
	}
	if v, err := strconv.Atoi(os.Getenv("VERIF_ENTRY_TIMEOUT")); err == nil && v > 0 {
		limit = v
	}
	ex.deadline = time.Now().Add(time.Duration(limit) * time.Second)
	return ex.RunEntry(es.Name)
}

var _ = types.Typ
