package sym

import (
	"fmt"
	"go/types"
	"unicode/utf8"

	"golang.org/x/tools/go/ssa"
)

// ---- maps ----

func (st *State) newMap(t types.Type) MapV {
	id := st.alloc(nil, t)
	o := *st.heap[id]
	o.Map = &MapData{Index: map[string]int{}, AllConc: true}
	st.heap[id] = &o
	return MapV{Obj: id}
}

// hashKey returns a canonical string for fully concrete keys.
func hashKey(v Value) (string, bool) {
	switch k := v.(type) {
	case *Term:
		if k.IsConst() {
			if k.Big != nil {
				return fmt.Sprintf("t%d:%s", k.W, k.Big.Text(16)), true
			}
			return fmt.Sprintf("t%d:%x", k.W, k.V), true
		}
		return "", false
	case StrV:
		if k.Conc {
			return "s:" + k.S, true
		}
		return "", false
	case Ptr:
		if k.Sym != nil {
			return "", false
		}
		return "p:" + ptrKey(k), true
	case IfaceV:
		if k.T == nil {
			return "i:nil", true
		}
		h, ok := hashKey(k.V)
		return "i:" + k.T.String() + ":" + h, ok
	case StructV:
		s := "{"
		for _, f := range k {
			h, ok := hashKey(f)
			if !ok {
				return "", false
			}
			s += h + ","
		}
		return s + "}", true
	case ArrayV:
		s := "["
		for _, f := range k {
			h, ok := hashKey(f)
			if !ok {
				return "", false
			}
			s += h + ","
		}
		return s + "]", true
	case ChanV:
		return fmt.Sprintf("c:%d", k.Obj), true
	case RTypeV:
		return "rt:" + k.T.String(), true
	case nil:
		return "nil", true
	}
	return "", false
}

func (st *State) mapData(m MapV) *MapData {
	o := st.obj(m.Obj)
	if o.Map == nil {
		panic(abort{"internal", "not a map object"})
	}
	return o.Map
}

// mapFind returns the index of the entry equal to k, or -1 (forking on symbolic equality).
func (st *State) mapFind(md *MapData, k Value) int {
	h, conc := hashKey(k)
	if conc && md.AllConc {
		if i, ok := md.Index[h]; ok {
			return i
		}
		return -1
	}
	for i, e := range md.Entries {
		if st.decide(st.ex.valueEq(st, e.K, k)) {
			return i
		}
	}
	return -1
}

func (st *State) mapLookup(m MapV, k Value) (Value, bool) {
	if m.Obj == 0 {
		return nil, false
	}
	md := st.mapData(m)
	i := st.mapFind(md, k)
	if i < 0 {
		return nil, false
	}
	return md.Entries[i].V, true
}

func (st *State) writeMap(m MapV, md *MapData) {
	o := *st.obj(m.Obj)
	o.Map = md
	st.heap[m.Obj] = &o
}

func (st *State) mapUpdate(m MapV, k, v Value) {
	md := st.mapData(m)
	i := st.mapFind(md, k)
	n := &MapData{AllConc: md.AllConc}
	n.Entries = make([]mapEntry, len(md.Entries), len(md.Entries)+1)
	copy(n.Entries, md.Entries)
	if i >= 0 {
		n.Entries[i] = mapEntry{n.Entries[i].K, v}
		n.Index = md.Index
	} else {
		n.Entries = append(n.Entries, mapEntry{k, v})
		h, conc := hashKey(k)
		if !conc {
			n.AllConc = false
		}
		n.Index = make(map[string]int, len(md.Index)+1)
		for kk, vv := range md.Index {
			n.Index[kk] = vv
		}
		if conc {
			n.Index[h] = len(n.Entries) - 1
		}
	}
	st.writeMap(m, n)
}

func (st *State) mapDelete(m MapV, k Value) {
	if m.Obj == 0 {
		return
	}
	md := st.mapData(m)
	i := st.mapFind(md, k)
	if i < 0 {
		return
	}
	n := &MapData{AllConc: true, Index: map[string]int{}}
	for j, e := range md.Entries {
		if j == i {
			continue
		}
		n.Entries = append(n.Entries, e)
		if h, conc := hashKey(e.K); conc {
			n.Index[h] = len(n.Entries) - 1
		} else {
			n.AllConc = false
		}
	}
	st.writeMap(m, n)
}

func (ex *Exec) lookup(st *State, fr *Frame, in *ssa.Lookup) Value {
	c := ex.Ctx
	x := st.get(fr, in.X)
	if s, ok := x.(StrV); ok {
		return ex.index(st, s, st.get(fr, in.Index).(*Term), in.Index.Type())
	}
	m := x.(MapV)
	v, ok := st.mapLookup(m, st.get(fr, in.Index))
	if !ok {
		v = ex.zero(in.X.Type().Underlying().(*types.Map).Elem())
	}
	if in.CommaOk {
		return TupleV{v, c.Bool(ok)}
	}
	return v
}

// ---- iteration ----

type iterState struct {
	isStr bool
	str   StrV
	m     MapV
	keys  []Value
	pos   int
}

func (ex *Exec) rangeIter(st *State, x Value, t types.Type) Value {
	switch v := x.(type) {
	case StrV:
		id := st.alloc(iterState{isStr: true, str: v}, nil)
		return Ptr{Obj: id}
	case MapV:
		it := iterState{m: v}
		if v.Obj != 0 {
			for _, e := range st.mapData(v).Entries {
				it.keys = append(it.keys, e.K)
			}
		}
		// optional order rotation chosen by the harness spec
		if n := len(it.keys); n > 1 && ex.Bounds["map_order_rev"] == 1 {
			for i, j := 0, n-1; i < j; i, j = i+1, j-1 {
				it.keys[i], it.keys[j] = it.keys[j], it.keys[i]
			}
		}
		id := st.alloc(it, nil)
		return Ptr{Obj: id}
	}
	panic(abort{"internal", fmt.Sprintf("range over %T", x)})
}

func (ex *Exec) next(st *State, fr *Frame, in *ssa.Next) Value {
	c := ex.Ctx
	p := st.get(fr, in.Iter).(Ptr)
	it := st.obj(p.Obj).Val.(iterState)
	tup := in.Type().(*types.Tuple)
	if it.isStr {
		if !it.str.Conc {
			// symbolic strings: only byte-wise ASCII iteration is modelled
			cells, ln := ex.strParts(it.str)
			if !st.decide(c.Slt(ex.i64(int64(it.pos)), ln)) {
				return TupleV{c.False, ex.i64(0), c.BV(32, 0)}
			}
			b := cells[it.pos]
			if !st.decide(c.Ult(b, c.BV(8, 0x80))) {
				unsupported("range over symbolic string with non-ASCII byte")
			}
			i := it.pos
			it.pos++
			st.setObjVal(p.Obj, it)
			return TupleV{c.True, ex.i64(int64(i)), c.ZExt(b, 24)}
		}
		if it.pos >= len(it.str.S) {
			return TupleV{c.False, ex.i64(0), c.BV(32, 0)}
		}
		r, sz := utf8.DecodeRuneInString(it.str.S[it.pos:])
		i := it.pos
		it.pos += sz
		st.setObjVal(p.Obj, it)
		return TupleV{c.True, ex.i64(int64(i)), c.BV(32, uint64(r))}
	}
	for it.pos < len(it.keys) {
		k := it.keys[it.pos]
		it.pos++
		// the key may have been deleted during iteration
		v, ok := st.mapLookup(it.m, k)
		if !ok {
			continue
		}
		st.setObjVal(p.Obj, it)
		return TupleV{c.True, k, v}
	}
	st.setObjVal(p.Obj, it)
	return TupleV{c.False, ex.zero(tup.At(1).Type()), ex.zero(tup.At(2).Type())}
}

// ---- builtins ----

func (ex *Exec) callBuiltin(st *State, b *ssa.Builtin, args []Value, site ssa.CallInstruction) Value {
	c := ex.Ctx
	switch b.Name() {
	case "len":
		switch v := args[0].(type) {
		case StrV:
			return ex.strLen(v)
		case SliceV:
			if v.Obj == 0 {
				return ex.i64(0)
			}
			return v.Len
		case MapV:
			if v.Obj == 0 {
				return ex.i64(0)
			}
			return ex.i64(int64(len(st.mapData(v).Entries)))
		case ArrayV:
			return ex.i64(int64(len(v)))
		case Ptr: // pointer to array
			t := site.Common().Args[0].Type().Underlying().(*types.Pointer).Elem().Underlying().(*types.Array)
			return ex.i64(t.Len())
		case ChanV:
			if v.Obj == 0 {
				return ex.i64(0)
			}
			return ex.i64(int64(len(st.obj(v.Obj).Chan.Buf)))
		}
	case "cap":
		switch v := args[0].(type) {
		case SliceV:
			if v.Obj == 0 {
				return ex.i64(0)
			}
			return v.Cap
		case ArrayV:
			return ex.i64(int64(len(v)))
		case Ptr:
			t := site.Common().Args[0].Type().Underlying().(*types.Pointer).Elem().Underlying().(*types.Array)
			return ex.i64(t.Len())
		case ChanV:
			if v.Obj == 0 {
				return ex.i64(0)
			}
			return ex.i64(int64(st.obj(v.Obj).Chan.Cap))
		}
	case "append":
		var elem types.Type
		if site != nil {
			elem = site.Common().Args[0].Type().Underlying().(*types.Slice).Elem()
		}
		return ex.appendOp(st, args[0].(SliceV), args[1], elem)
	case "copy":
		return ex.copyOp(st, args[0].(SliceV), args[1])
	case "delete":
		st.mapDelete(args[0].(MapV), args[1])
		return nil
	case "close":
		ex.closeChan(st, args[0].(ChanV))
		return nil
	case "recover":
		if len(st.frames) >= 2 {
			caller := st.frames[len(st.frames)-2]
			if caller.RunningDefers && caller.Panicking && !caller.Recovered {
				caller.Recovered = true
				return caller.PanicVal
			}
		}
		return IfaceV{}
	case "print", "println":
		return nil
	case "min", "max":
		t := site.Common().Args[0].Type()
		isMin := b.Name() == "min"
		if isString(t) {
			res := args[0].(StrV)
			for _, a := range args[1:] {
				av := a.(StrV)
				var better *Term
				if isMin {
					better = ex.strLess(av, res)
				} else {
					better = ex.strLess(res, av)
				}
				if st.decide(better) {
					res = av
				}
			}
			return res
		}
		_, signed, ok := intInfo(t)
		if !ok {
			unsupported("min/max on %s", t)
		}
		res := args[0].(*Term)
		for _, a := range args[1:] {
			av := a.(*Term)
			x, y := av, res // better iff x < y
			if !isMin {
				x, y = res, av
			}
			var better *Term
			if signed {
				better = c.Slt(x, y)
			} else {
				better = c.Ult(x, y)
			}
			res = c.Ite(better, av, res)
		}
		return res
	case "clear":
		switch v := args[0].(type) {
		case MapV:
			if v.Obj != 0 {
				st.writeMap(v, &MapData{Index: map[string]int{}, AllConc: true})
			}
			return nil
		}
	case "ssa:wrapnilchk":
		if p, ok := args[0].(Ptr); ok && p.IsNil() {
			ex.runtimePanic("value method called using nil pointer")
		}
		return args[0]
	}
	unsupported("builtin %s on %T", b.Name(), args[0])
	return nil
}

// srcCells returns the cells and length of the source of append/copy (slice or string).
func (st *State) srcCells(src Value) ([]Value, *Term) {
	switch s := src.(type) {
	case StrV:
		cells, ln := st.ex.strParts(s)
		out := make([]Value, len(cells))
		for i, c := range cells {
			out[i] = c
		}
		return out, ln
	case SliceV:
		if s.Obj == 0 {
			return nil, st.ex.i64(0)
		}
		n := st.ubLen(s, s.Len)
		if n < 0 {
			n = 0
		}
		return st.sliceCells(s, n), s.Len
	}
	panic(abort{"internal", fmt.Sprintf("srcCells of %T", src)})
}

func (ex *Exec) appendOp(st *State, s SliceV, src Value, elem types.Type) Value {
	c := ex.Ctx
	s = st.simpSlice(s)
	if sv, ok := src.(SliceV); ok {
		src = st.simpSlice(sv)
	}
	add, addLen := st.srcCells(src)
	addLen = st.simp(addLen)
	if addLen.IsConst() && addLen.V == 0 {
		return s
	}
	sLen, sCap := s.Len, s.Cap
	if s.Obj == 0 {
		sLen, sCap = ex.i64(0), ex.i64(0)
		// appending nothing to a nil slice yields the nil slice (no growth is needed): with a symbolic
		// number of appended elements that case is split off, it is observable through == nil
		if !addLen.IsConst() && st.decide(c.Eq(addLen, ex.i64(0))) {
			return s
		}
	}
	newLen := c.Add(sLen, addLen)
	fits := c.Sle(newLen, sCap)
	if s.Obj != 0 && st.decide(fits) {
		// in place
		st.writeCells(s.Obj, s.Path, c.Add(s.Off, sLen), add, addLen)
		return SliceV{Obj: s.Obj, Path: s.Path, Off: s.Off, Len: newLen, Cap: s.Cap}
	}
	// grow: new backing array
	var old []Value
	if s.Obj != 0 {
		n := st.ubLen(s, s.Len)
		old = st.sliceCells(s, n)
	}
	oldN := len(old)
	if sLen.IsConst() {
		oldN = int(sLen.V)
		old = old[:oldN]
	}
	addN := len(add)
	if addLen.IsConst() {
		addN = int(addLen.V)
		add = add[:addN]
	}
	total := oldN + addN
	capN := total
	if sLen.IsConst() && addLen.IsConst() {
		// amortised growth like the runtime (exact factor is unspecified by the language)
		if d := 2 * int(signed64(64, st.capConst(sCap))); d > capN && d <= 1024 {
			capN = d
		}
	}
	arr := make(ArrayV, capN)
	var z Value
	if elem != nil {
		z = ex.zero(elem)
	} else if total > 0 {
		if len(old) > 0 {
			z = zeroLike(ex, old[0])
		} else {
			z = zeroLike(ex, add[0])
		}
	}
	for i := range arr {
		arr[i] = z
	}
	copy(arr, old)
	id := st.alloc(arr, nil)
	if elem != nil {
		o := *st.heap[id]
		o.Typ = types.NewArray(elem, int64(capN))
		st.heap[id] = &o
	}
	st.writeCells(id, nil, sLen, add, addLen)
	var capT *Term = ex.i64(int64(capN))
	if !(sLen.IsConst() && addLen.IsConst()) {
		capT = newLen // exact fit keeps cap symbolic but consistent (cap >= len)
	}
	return SliceV{Obj: id, Off: ex.i64(0), Len: newLen, Cap: capT}
}

func (st *State) capConst(t *Term) uint64 {
	if t.IsConst() {
		return t.V
	}
	return 0
}

func zeroLike(ex *Exec, v Value) Value {
	switch x := v.(type) {
	case *Term:
		if x.W == 0 {
			return ex.Ctx.False
		}
		return ex.Ctx.BV(x.W, 0)
	}
	return nil
}

// writeCells writes vals[0:n] into the array at (obj,path) starting at position pos.
func (st *State) writeCells(obj int, path []int, pos *Term, vals []Value, n *Term) {
	c := st.ex.Ctx
	o := st.obj(obj)
	arr := getPath(o.Val, path).(ArrayV)
	na := make(ArrayV, len(arr))
	copy(na, arr)
	if pos.IsConst() && n.IsConst() {
		p := int(pos.V)
		for i := 0; i < int(n.V); i++ {
			na[p+i] = vals[i]
		}
		st.setObjVal(obj, setPath(o.Val, path, na))
		return
	}
	if pos.IsConst() {
		// symbolic count: guarded writes
		p := int(pos.V)
		for i := 0; i < len(vals) && p+i < len(na); i++ {
			in := c.Slt(st.ex.i64(int64(i)), n)
			na[p+i] = st.iteValue(in, vals[i], na[p+i])
		}
		st.setObjVal(obj, setPath(o.Val, path, na))
		return
	}
	// symbolic position: every cell j gets vals[j-pos] if pos <= j < pos+n
	srcArr := ArrayV(vals)
	for j := range na {
		jj := st.ex.i64(int64(j))
		k := c.Sub(jj, pos)
		in := c.And(c.Sle(pos, jj), c.Slt(k, n))
		if len(srcArr) == 0 {
			continue
		}
		known, isKnown := st.known(in)
		if isKnown && !known {
			continue
		}
		sv := st.selectCell(srcArr, k)
		na[j] = st.iteValue(in, sv, na[j])
	}
	st.setObjVal(obj, setPath(o.Val, path, na))
}

// iteValue builds ite(c,a,b) for term values; other values require a decision.
func (st *State) iteValue(cond *Term, a, b Value) Value {
	if cond.IsConst() {
		if cond.V == 1 {
			return a
		}
		return b
	}
	at, ok1 := a.(*Term)
	bt, ok2 := b.(*Term)
	if ok1 && ok2 && at.W == bt.W {
		return st.ex.Ctx.Ite(cond, at, bt)
	}
	if st.decide(cond) {
		return a
	}
	return b
}

func (ex *Exec) copyOp(st *State, dst SliceV, src Value) Value {
	c := ex.Ctx
	dst = st.simpSlice(dst)
	if sv, ok := src.(SliceV); ok {
		src = st.simpSlice(sv)
	}
	vals, srcLen := st.srcCells(src)
	srcLen = st.simp(srcLen)
	if dst.Obj == 0 {
		return ex.i64(0)
	}
	n := c.Ite(c.Slt(srcLen, dst.Len), srcLen, dst.Len)
	if n.IsConst() && n.V == 0 {
		return n
	}
	st.writeCells(dst.Obj, dst.Path, dst.Off, vals, n)
	return n
}
