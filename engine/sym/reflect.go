package sym

import (
	"fmt"
	"go/types"
	"reflect"

	"golang.org/x/tools/go/ssa"
)

// ReflV models reflect.Value.
type ReflV struct {
	T     types.Type
	V     Value
	Valid bool
	Addr  *Ptr // addressable location (then V is ignored)
	RO    bool
}

// RTypeV models reflect.Type (held in an interface whose dynamic type is rtypeMarker).
type RTypeV struct{ T types.Type }

type rtypeMarker struct{}

func (*rtypeMarker) Underlying() types.Type { return theRTypeMarker }
func (*rtypeMarker) String() string         { return "*reflect.rtype" }

var theRTypeMarker = &rtypeMarker{}

func rtypeIface(t types.Type) Value {
	if t == nil {
		return IfaceV{}
	}
	return IfaceV{T: theRTypeMarker, V: RTypeV{T: t}}
}

func kindOf(t types.Type) reflect.Kind {
	switch u := t.Underlying().(type) {
	case *types.Basic:
		switch u.Kind() {
		case types.Bool, types.UntypedBool:
			return reflect.Bool
		case types.Int, types.UntypedInt:
			return reflect.Int
		case types.Int8:
			return reflect.Int8
		case types.Int16:
			return reflect.Int16
		case types.Int32, types.UntypedRune:
			return reflect.Int32
		case types.Int64:
			return reflect.Int64
		case types.Uint:
			return reflect.Uint
		case types.Uint8:
			return reflect.Uint8
		case types.Uint16:
			return reflect.Uint16
		case types.Uint32:
			return reflect.Uint32
		case types.Uint64:
			return reflect.Uint64
		case types.Uintptr:
			return reflect.Uintptr
		case types.Float32:
			return reflect.Float32
		case types.Float64, types.UntypedFloat:
			return reflect.Float64
		case types.Complex64:
			return reflect.Complex64
		case types.Complex128:
			return reflect.Complex128
		case types.String, types.UntypedString:
			return reflect.String
		case types.UnsafePointer:
			return reflect.UnsafePointer
		}
	case *types.Array:
		return reflect.Array
	case *types.Chan:
		return reflect.Chan
	case *types.Signature:
		return reflect.Func
	case *types.Interface:
		return reflect.Interface
	case *types.Map:
		return reflect.Map
	case *types.Pointer:
		return reflect.Ptr
	case *types.Slice:
		return reflect.Slice
	case *types.Struct:
		return reflect.Struct
	}
	return reflect.Invalid
}

func (rv ReflV) val(st *State) Value {
	if rv.Addr != nil {
		return st.load(*rv.Addr)
	}
	return rv.V
}

func (ex *Exec) reflPanic(st *State, msg string) {
	// *reflect.ValueError / plain string panics: not runtime.Error
	panic(goPanic{IfaceV{T: types.Typ[types.String], V: conStr("reflect: " + msg)}})
}

func (ex *Exec) kindTerm(k reflect.Kind) *Term { return ex.Ctx.BV(64, uint64(k)) }

func isByteSlice(t types.Type) bool {
	s, ok := t.Underlying().(*types.Slice)
	if !ok {
		return false
	}
	b, ok := s.Elem().Underlying().(*types.Basic)
	return ok && b.Kind() == types.Uint8
}

func (ex *Exec) callReflect(st *State, f *ssa.Function, args []Value) Value {
	c := ex.Ctx
	name := f.Name()
	recv := f.Signature.Recv()
	if recv == nil {
		switch name {
		case "ValueOf":
			iv := args[0].(IfaceV)
			if iv.T == nil {
				return ReflV{}
			}
			return ReflV{T: iv.T, V: iv.V, Valid: true}
		case "TypeOf":
			iv := args[0].(IfaceV)
			return rtypeIface(iv.T)
		case "New":
			t := args[0].(IfaceV).V.(RTypeV).T
			id := st.alloc(ex.zero(t), t)
			return ReflV{T: types.NewPointer(t), V: Ptr{Obj: id}, Valid: true}
		case "Zero":
			t := args[0].(IfaceV).V.(RTypeV).T
			return ReflV{T: t, V: ex.zero(t), Valid: true}
		case "Indirect":
			rv := args[0].(ReflV)
			if kindOf(rv.T) != reflect.Ptr {
				return rv
			}
			return ex.reflElem(st, rv)
		case "MakeSlice":
			t := args[0].(IfaceV).V.(RTypeV).T
			ln, cp := args[1].(*Term), args[2].(*Term)
			// reflect.MakeSlice panics (non-runtime error string) on negative len
			if !st.decide(c.Sle(ex.i64(0), ln)) {
				ex.reflPanic(st, "reflect.MakeSlice: negative len")
			}
			if !st.decide(c.Sle(ln, cp)) {
				ex.reflPanic(st, "reflect.MakeSlice: len > cap")
			}
			s := ex.makeSlice(st, t, ln, cp, types.Typ[types.Int], types.Typ[types.Int])
			return ReflV{T: t, V: s, Valid: true}
		case "MakeMap", "MakeMapWithSize":
			t := args[0].(IfaceV).V.(RTypeV).T
			if name == "MakeMapWithSize" {
				n := args[1].(*Term)
				if !st.decide(c.Sle(ex.i64(0), n)) {
					ex.reflPanic(st, "reflect.MakeMapWithSize: negative size hint")
				}
				if !n.IsConst() {
					if !st.decide(c.Sle(n, ex.i64(int64(ex.allocLimit())))) {
						ex.wildAlloc(st, n)
					}
				} else if int64(n.V) > 1<<22 {
					ex.wildAlloc(st, n)
				}
			}
			return ReflV{T: t, V: st.newMap(t), Valid: true}
		case "SliceOf":
			t := args[0].(IfaceV).V.(RTypeV).T
			return rtypeIface(types.NewSlice(t))
		case "MapOf":
			k := args[0].(IfaceV).V.(RTypeV).T
			v := args[1].(IfaceV).V.(RTypeV).T
			if !types.Comparable(k) {
				ex.reflPanic(st, "reflect.MapOf: invalid key type "+k.String())
			}
			return rtypeIface(types.NewMap(k, v))
		case "PtrTo", "PointerTo":
			t := args[0].(IfaceV).V.(RTypeV).T
			return rtypeIface(types.NewPointer(t))
		case "Copy":
			dst, src := args[0].(ReflV), args[1].(ReflV)
			var d SliceV
			switch dv := dst.val(st).(type) {
			case SliceV:
				d = dv
			default:
				unsupported("reflect.Copy into %T", dv)
			}
			return ex.copyOp(st, d, src.val(st))
		case "Append":
			s := args[0].(ReflV)
			xs := args[1].(SliceV)
			n := int(st.constInt(xs.Len, "reflect.Append count"))
			cur := s.val(st).(SliceV)
			elem := s.T.Underlying().(*types.Slice).Elem()
			for _, x := range st.sliceCells(xs, n) {
				one := st.sliceFromValues(elem, []Value{x.(ReflV).val(st)})
				cur = ex.appendOp(st, cur, one, elem).(SliceV)
			}
			return ReflV{T: s.T, V: cur, Valid: true}
		case "DeepEqual":
			unsupported("reflect.DeepEqual")
		}
		unsupported("reflect.%s", name)
	}
	rt := recv.Type()
	if isNamed(rt, "reflect", "Kind") {
		if name == "String" {
			k := args[0].(*Term)
			return conStr(reflect.Kind(st.constInt(k, "kind")).String())
		}
	}
	if isNamed(rt, "reflect", "StructTag") || isNamed(rt, "reflect", "ChanDir") {
		// pure Go: interpret
		nf := ex.newFrame(f, args, nil, nil)
		_ = nf
		unsupported("reflect.%s.%s must be interpreted", rt, name)
	}
	if !isNamed(rt, "reflect", "Value") {
		unsupported("reflect method (%s).%s", rt, name)
	}
	rv := args[0].(ReflV)
	args = args[1:]
	if !rv.Valid {
		switch name {
		case "IsValid":
			return c.False
		case "Kind":
			return ex.kindTerm(reflect.Invalid)
		case "String":
			return conStr("<invalid Value>")
		}
		ex.reflPanic(st, "call of reflect.Value."+name+" on zero Value")
	}
	k := kindOf(rv.T)
	switch name {
	case "IsValid":
		return c.True
	case "Kind":
		return ex.kindTerm(k)
	case "Type":
		return rtypeIface(rv.T)
	case "CanAddr":
		return c.Bool(rv.Addr != nil)
	case "CanSet":
		return c.Bool(rv.Addr != nil && !rv.RO)
	case "CanInterface":
		return c.Bool(!rv.RO)
	case "Interface":
		v := rv.val(st)
		if k == reflect.Interface {
			return v
		}
		return IfaceV{T: rv.T, V: v}
	case "Addr":
		if rv.Addr == nil {
			ex.reflPanic(st, "reflect.Value.Addr of unaddressable value")
		}
		return ReflV{T: types.NewPointer(rv.T), V: *rv.Addr, Valid: true}
	case "Elem":
		return ex.reflElem(st, rv)
	case "IsNil":
		switch v := rv.val(st).(type) {
		case Ptr:
			return c.Bool(v.IsNil())
		case SliceV:
			return c.Bool(v.Obj == 0)
		case MapV:
			return c.Bool(v.Obj == 0)
		case ChanV:
			return c.Bool(v.Obj == 0)
		case FuncV:
			return c.Bool(v.IsNil())
		case IfaceV:
			return c.Bool(v.T == nil)
		}
		ex.reflPanic(st, "reflect: call of reflect.Value.IsNil on "+k.String()+" Value")
	case "IsZero":
		v := rv.val(st)
		return ex.valueEq(st, v, ex.zero(rv.T))
	case "Len":
		switch v := rv.val(st).(type) {
		case SliceV, StrV, MapV, ArrayV:
			return ex.callBuiltinLen(st, v)
		}
		ex.reflPanic(st, "reflect: call of reflect.Value.Len on "+k.String()+" Value")
	case "Cap":
		switch v := rv.val(st).(type) {
		case SliceV:
			if v.Obj == 0 {
				return ex.i64(0)
			}
			return v.Cap
		case ArrayV:
			return ex.i64(int64(len(v)))
		}
		ex.reflPanic(st, "reflect: call of reflect.Value.Cap on "+k.String()+" Value")
	case "Index":
		i := args[0].(*Term)
		switch v := rv.val(st).(type) {
		case SliceV:
			if !st.decide(c.Ult(i, v.Len)) {
				ex.reflPanic(st, "reflect: slice index out of range")
			}
			p := ex.indexAddr(st, v, i, types.Typ[types.Int], rv.T).(Ptr)
			return ReflV{T: rv.T.Underlying().(*types.Slice).Elem(), Valid: true, Addr: &p}
		case ArrayV:
			if !st.decide(c.Ult(i, ex.i64(int64(len(v))))) {
				ex.reflPanic(st, "reflect: array index out of range")
			}
			et := rv.T.Underlying().(*types.Array).Elem()
			if rv.Addr != nil {
				ap := st.concPtr(*rv.Addr)
				var p Ptr
				if i.IsConst() {
					p = Ptr{Obj: ap.Obj, Path: appendPath(ap.Path, int(i.V))}
				} else {
					p = Ptr{Obj: ap.Obj, Path: ap.Path, Sym: i}
				}
				return ReflV{T: et, Valid: true, Addr: &p}
			}
			return ReflV{T: et, V: st.selectCell(v, i), Valid: true}
		case StrV:
			b := ex.index(st, v, i, types.Typ[types.Int])
			return ReflV{T: types.Typ[types.Uint8], V: b, Valid: true}
		}
		ex.reflPanic(st, "reflect: call of reflect.Value.Index on "+k.String()+" Value")
	case "NumField":
		s, ok := rv.T.Underlying().(*types.Struct)
		if !ok {
			ex.reflPanic(st, "reflect: call of reflect.Value.NumField on "+k.String()+" Value")
		}
		return ex.i64(int64(s.NumFields()))
	case "Field":
		s, ok := rv.T.Underlying().(*types.Struct)
		if !ok {
			ex.reflPanic(st, "reflect: call of reflect.Value.Field on "+k.String()+" Value")
		}
		i := int(st.constInt(args[0].(*Term), "field index"))
		if i < 0 || i >= s.NumFields() {
			ex.reflPanic(st, "reflect: Field index out of range")
		}
		fld := s.Field(i)
		ro := rv.RO || !fld.Exported()
		if rv.Addr != nil {
			ap := st.concPtr(*rv.Addr)
			p := Ptr{Obj: ap.Obj, Path: appendPath(ap.Path, i)}
			return ReflV{T: fld.Type(), Valid: true, Addr: &p, RO: ro}
		}
		return ReflV{T: fld.Type(), V: rv.V.(StructV)[i], Valid: true, RO: ro}
	case "FieldByName":
		s, ok := rv.T.Underlying().(*types.Struct)
		if !ok {
			ex.reflPanic(st, "reflect: call of reflect.Value.FieldByName on "+k.String()+" Value")
		}
		nm := argStr(args[0])
		for i := 0; i < s.NumFields(); i++ {
			if s.Field(i).Name() == nm {
				return ex.callReflectMethod(st, rv, "Field", []Value{ex.i64(int64(i))})
			}
		}
		return ReflV{}
	case "Int":
		w, signed, ok := intInfo(rv.T)
		if !ok || !signed {
			ex.reflPanic(st, "reflect: call of reflect.Value.Int on "+k.String()+" Value")
		}
		return c.SExt(rv.val(st).(*Term), 64-w)
	case "Uint":
		w, signed, ok := intInfo(rv.T)
		if !ok || signed {
			ex.reflPanic(st, "reflect: call of reflect.Value.Uint on "+k.String()+" Value")
		}
		return c.ZExt(rv.val(st).(*Term), 64-w)
	case "Float":
		w, ok := isFloat(rv.T)
		if !ok {
			ex.reflPanic(st, "reflect: call of reflect.Value.Float on "+k.String()+" Value")
		}
		t := rv.val(st).(*Term)
		if w == 64 {
			return t
		}
		if !t.IsConst() {
			// float32 -> float64 widening of symbolic bits
			return ex.f32to64(t)
		}
		return ex.fval(64, fbits(32, t))
	case "Bool":
		if k != reflect.Bool {
			ex.reflPanic(st, "reflect: call of reflect.Value.Bool on "+k.String()+" Value")
		}
		return rv.val(st)
	case "String":
		if k != reflect.String {
			return conStr("<" + rv.T.String() + " Value>")
		}
		return rv.val(st)
	case "Bytes":
		if k == reflect.Slice && isByteSlice(rv.T) {
			return rv.val(st)
		}
		if k == reflect.Array && rv.Addr != nil {
			a := rv.T.Underlying().(*types.Array)
			ap := st.concPtr(*rv.Addr)
			n := ex.i64(a.Len())
			return SliceV{Obj: ap.Obj, Path: ap.Path, Off: ex.i64(0), Len: n, Cap: n}
		}
		ex.reflPanic(st, "reflect.Value.Bytes of non-byte slice")
	case "Pointer", "UnsafePointer":
		unsupported("reflect.Value.%s", name)
	case "Set":
		ex.reflSet(st, rv, args[0].(ReflV).val(st), args[0].(ReflV).T)
		return nil
	case "SetInt":
		w, signed, ok := intInfo(rv.T)
		if !ok || !signed {
			ex.reflPanic(st, "reflect: call of reflect.Value.SetInt on "+k.String()+" Value")
		}
		ex.reflSet(st, rv, c.Extract(args[0].(*Term), w-1, 0), rv.T)
		return nil
	case "SetUint":
		w, signed, ok := intInfo(rv.T)
		if !ok || signed {
			ex.reflPanic(st, "reflect: call of reflect.Value.SetUint on "+k.String()+" Value")
		}
		ex.reflSet(st, rv, c.Extract(args[0].(*Term), w-1, 0), rv.T)
		return nil
	case "SetFloat":
		w, ok := isFloat(rv.T)
		if !ok {
			ex.reflPanic(st, "reflect: call of reflect.Value.SetFloat on "+k.String()+" Value")
		}
		t := args[0].(*Term)
		if w == 32 {
			if !t.IsConst() {
				unsupported("SetFloat of symbolic value into float32")
			}
			t = ex.fval(32, fbits(64, t))
		}
		ex.reflSet(st, rv, t, rv.T)
		return nil
	case "SetBool":
		ex.reflSet(st, rv, args[0], rv.T)
		return nil
	case "SetString":
		ex.reflSet(st, rv, args[0], rv.T)
		return nil
	case "SetBytes":
		ex.reflSet(st, rv, args[0], rv.T)
		return nil
	case "SetLen":
		s := rv.val(st).(SliceV)
		n := args[0].(*Term)
		if !st.decide(c.Ule(n, s.Cap)) {
			ex.reflPanic(st, "reflect: slice length out of range in SetLen")
		}
		s.Len = n
		ex.reflSet(st, rv, s, rv.T)
		return nil
	case "MapKeys":
		m := rv.val(st).(MapV)
		kt := rv.T.Underlying().(*types.Map).Key()
		var vals []Value
		if m.Obj != 0 {
			for _, e := range st.mapData(m).Entries {
				vals = append(vals, ReflV{T: kt, V: e.K, Valid: true})
			}
		}
		return st.sliceFromValues(nil, vals)
	case "MapIndex":
		m := rv.val(st).(MapV)
		v, ok := st.mapLookup(m, args[0].(ReflV).val(st))
		if !ok {
			return ReflV{}
		}
		return ReflV{T: rv.T.Underlying().(*types.Map).Elem(), V: v, Valid: true}
	case "SetMapIndex":
		m := rv.val(st).(MapV)
		if m.Obj == 0 {
			panic(goPanic{IfaceV{T: ex.rtErrType, V: conStr("assignment to entry in nil map")}})
		}
		kv := args[0].(ReflV)
		ev := args[1].(ReflV)
		if !ev.Valid {
			st.mapDelete(m, kv.val(st))
			return nil
		}
		val := ev.val(st)
		if kindOf(rv.T.Underlying().(*types.Map).Elem()) == reflect.Interface && kindOf(ev.T) != reflect.Interface {
			val = IfaceV{T: ev.T, V: val}
		}
		key := kv.val(st)
		if kindOf(rv.T.Underlying().(*types.Map).Key()) == reflect.Interface && kindOf(kv.T) != reflect.Interface {
			key = IfaceV{T: kv.T, V: key}
		}
		st.mapUpdate(m, key, val)
		return nil
	case "Convert":
		t := args[0].(IfaceV).V.(RTypeV).T
		return ReflV{T: t, V: ex.convert(st, rv.val(st), rv.T, t), Valid: true}
	case "Slice", "Slice3":
		sv, ok := rv.val(st).(SliceV)
		if !ok {
			unsupported("reflect.Value.%s on %s", name, k)
		}
		sv = st.simpSlice(sv)
		lo, hi := st.simp(args[0].(*Term)), st.simp(args[1].(*Term))
		max := sv.Cap
		if name == "Slice3" {
			max = st.simp(args[2].(*Term))
		}
		if sv.Obj == 0 {
			max = ex.i64(0)
			if name == "Slice3" {
				max = st.simp(args[2].(*Term))
			}
			if !st.decide(c.And(c.Eq(lo, ex.i64(0)), c.And(c.Eq(hi, ex.i64(0)), c.Eq(max, ex.i64(0))))) {
				ex.reflPanic(st, "reflect.Value."+name+": slice index out of bounds")
			}
			return ReflV{T: rv.T, V: ex.nilSlice(), Valid: true}
		}
		if !st.decide(c.And(c.Ule(max, sv.Cap), c.And(c.Ule(hi, max), c.Ule(lo, hi)))) {
			ex.reflPanic(st, "reflect.Value."+name+": slice index out of bounds")
		}
		return ReflV{T: rv.T, V: SliceV{Obj: sv.Obj, Path: sv.Path, Off: c.Add(sv.Off, lo), Len: c.Sub(hi, lo), Cap: c.Sub(max, lo)}, Valid: true}
	}
	unsupported("reflect.Value.%s", name)
	return nil
}

func (ex *Exec) callReflectMethod(st *State, rv ReflV, name string, args []Value) Value {
	// re-dispatch helper: build a fake call through callReflect's method switch
	vt := ex.Prog.ImportedPackage("reflect").Type("Value").Type()
	sel := ex.Prog.MethodSets.MethodSet(vt).Lookup(nil, name)
	if sel == nil {
		unsupported("reflect.Value.%s not found", name)
	}
	f := ex.Prog.MethodValue(sel)
	return ex.callReflect(st, f, append([]Value{rv}, args...))
}

func (ex *Exec) reflElem(st *State, rv ReflV) Value {
	switch kindOf(rv.T) {
	case reflect.Ptr:
		p := rv.val(st).(Ptr)
		if p.IsNil() {
			return ReflV{}
		}
		return ReflV{T: rv.T.Underlying().(*types.Pointer).Elem(), Valid: true, Addr: &p}
	case reflect.Interface:
		iv := rv.val(st).(IfaceV)
		if iv.T == nil {
			return ReflV{}
		}
		return ReflV{T: iv.T, V: iv.V, Valid: true}
	}
	ex.reflPanic(st, "reflect: call of reflect.Value.Elem on "+kindOf(rv.T).String()+" Value")
	return nil
}

func (ex *Exec) reflSet(st *State, rv ReflV, v Value, vt types.Type) {
	if rv.Addr == nil || rv.RO {
		ex.reflPanic(st, "reflect: reflect.Value.Set using unaddressable value")
	}
	if kindOf(rv.T) == reflect.Interface && vt != nil && kindOf(vt) != reflect.Interface {
		v = IfaceV{T: vt, V: v}
	} else if vt != nil && !types.AssignableTo(vt, rv.T) {
		ex.reflPanic(st, "reflect.Set: value of type "+vt.String()+" is not assignable to type "+rv.T.String())
	}
	st.store(*rv.Addr, v)
}

// f32to64 widens a float32 bit pattern to float64 symbolically (normal numbers, zeros, inf/nan; subnormals unsupported).
func (ex *Exec) f32to64(t *Term) *Term {
	unsupported("float32 to float64 conversion of symbolic value")
	return nil
}

func (ex *Exec) rtypeMethod(st *State, rt RTypeV, name string, args []Value) Value {
	c := ex.Ctx
	t := rt.T
	switch name {
	case "Kind":
		return ex.kindTerm(kindOf(t))
	case "Elem":
		switch u := t.Underlying().(type) {
		case *types.Pointer:
			return rtypeIface(u.Elem())
		case *types.Slice:
			return rtypeIface(u.Elem())
		case *types.Array:
			return rtypeIface(u.Elem())
		case *types.Map:
			return rtypeIface(u.Elem())
		case *types.Chan:
			return rtypeIface(u.Elem())
		}
		ex.reflPanic(st, "reflect: Elem of invalid type "+t.String())
	case "Key":
		if m, ok := t.Underlying().(*types.Map); ok {
			return rtypeIface(m.Key())
		}
		ex.reflPanic(st, "reflect: Key of non-map type "+t.String())
	case "Len":
		if a, ok := t.Underlying().(*types.Array); ok {
			return ex.i64(a.Len())
		}
		ex.reflPanic(st, "reflect: Len of non-array type "+t.String())
	case "Name":
		if n, ok := t.(*types.Named); ok {
			return conStr(n.Obj().Name())
		}
		if b, ok := t.(*types.Basic); ok {
			return conStr(b.Name())
		}
		return conStr("")
	case "PkgPath":
		if n, ok := t.(*types.Named); ok && n.Obj().Pkg() != nil {
			return conStr(n.Obj().Pkg().Path())
		}
		return conStr("")
	case "String":
		return conStr(types.TypeString(t, func(p *types.Package) string { return p.Name() }))
	case "NumField":
		if s, ok := t.Underlying().(*types.Struct); ok {
			return ex.i64(int64(s.NumFields()))
		}
		ex.reflPanic(st, "reflect: NumField of non-struct type "+t.String())
	case "Field":
		s, ok := t.Underlying().(*types.Struct)
		if !ok {
			ex.reflPanic(st, "reflect: Field of non-struct type "+t.String())
		}
		i := int(st.constInt(args[0].(*Term), "field index"))
		if i < 0 || i >= s.NumFields() {
			ex.reflPanic(st, "reflect: Field index out of bounds")
		}
		f := s.Field(i)
		pkg := ""
		if !f.Exported() && f.Pkg() != nil {
			pkg = f.Pkg().Path()
		}
		// reflect.StructField{Name, PkgPath, Type, Tag, Offset, Index, Anonymous}
		idx := st.sliceFromValues(types.Typ[types.Int], []Value{ex.i64(int64(i))})
		return StructV{conStr(f.Name()), conStr(pkg), rtypeIface(f.Type()), conStr(s.Tag(i)), c.BV(64, 0), idx, c.Bool(f.Embedded())}
	case "NumMethod":
		return ex.i64(int64(ex.Prog.MethodSets.MethodSet(t).Len()))
	case "Implements":
		it := args[0].(IfaceV).V.(RTypeV).T
		return c.Bool(types.Implements(t, it.Underlying().(*types.Interface)))
	case "AssignableTo":
		return c.Bool(types.AssignableTo(t, args[0].(IfaceV).V.(RTypeV).T))
	case "ConvertibleTo":
		return c.Bool(types.ConvertibleTo(t, args[0].(IfaceV).V.(RTypeV).T))
	case "Comparable":
		return c.Bool(types.Comparable(t))
	case "Size":
		sz := types.SizesFor("gc", "amd64").Sizeof(t)
		return c.BV(64, uint64(sz))
	case "Bits":
		if w, _, ok := intInfo(t); ok {
			return ex.i64(int64(w))
		}
		if w, ok := isFloat(t); ok {
			return ex.i64(int64(w))
		}
	}
	unsupported("reflect.Type.%s on %s", name, t)
	return nil
}

var _ = fmt.Sprintf
