package sym

import (
	"fmt"
	"go/token"
	"go/types"
	"math"
	"unicode/utf8"

	"golang.org/x/tools/go/ssa"
)

func (ex *Exec) i64(v int64) *Term { return ex.Ctx.BV(64, uint64(v)) }

// ---- strings ----

func (ex *Exec) strParts(s StrV) ([]*Term, *Term) {
	if !s.Conc {
		return s.Cells, s.Len
	}
	cells := make([]*Term, len(s.S))
	for i := 0; i < len(s.S); i++ {
		cells[i] = ex.Ctx.BV(8, uint64(s.S[i]))
	}
	return cells, ex.i64(int64(len(s.S)))
}

func (ex *Exec) mkStr(cells []*Term, ln *Term) StrV {
	if ln.IsConst() {
		n := int(ln.V)
		if n > len(cells) {
			panic(abort{"internal", "string length exceeds cells"})
		}
		all := true
		for _, c := range cells[:n] {
			if !c.IsConst() {
				all = false
				break
			}
		}
		if all {
			b := make([]byte, n)
			for i := range b {
				b[i] = byte(cells[i].V)
			}
			return conStr(string(b))
		}
		return StrV{Cells: cells[:n], Len: ln}
	}
	return StrV{Cells: cells, Len: ln}
}

func (ex *Exec) strLen(s StrV) *Term {
	if s.Conc {
		return ex.i64(int64(len(s.S)))
	}
	return s.Len
}

func (ex *Exec) strEq(a, b StrV) *Term {
	c := ex.Ctx
	if a.Conc && b.Conc {
		return c.Bool(a.S == b.S)
	}
	ac, al := ex.strParts(a)
	bc, bl := ex.strParts(b)
	res := c.Eq(al, bl)
	n := len(ac)
	if len(bc) < n {
		n = len(bc)
	}
	// if one length is constant, only that many cells matter
	if al.IsConst() && int(al.V) < n {
		n = int(al.V)
	}
	if bl.IsConst() && int(bl.V) < n {
		n = int(bl.V)
	}
	for i := 0; i < n; i++ {
		in := c.Slt(ex.i64(int64(i)), al)
		res = c.And(res, c.Implies(in, c.Eq(ac[i], bc[i])))
	}
	return res
}

// strLess: lexicographic a < b.
func (ex *Exec) strLess(a, b StrV) *Term {
	c := ex.Ctx
	if a.Conc && b.Conc {
		return c.Bool(a.S < b.S)
	}
	ac, al := ex.strParts(a)
	bc, bl := ex.strParts(b)
	n := len(ac)
	if len(bc) > n {
		n = len(bc)
	}
	// beyond both capacities: a<b iff lenA < lenB at that point (both exhausted => equal => false)
	res := c.Slt(al, bl)
	for i := n - 1; i >= 0; i-- {
		ii := ex.i64(int64(i))
		aEnd := c.Sle(al, ii)
		bEnd := c.Sle(bl, ii)
		var ai, bi *Term
		if i < len(ac) {
			ai = ac[i]
		} else {
			ai = c.BV(8, 0)
		}
		if i < len(bc) {
			bi = bc[i]
		} else {
			bi = c.BV(8, 0)
		}
		res = c.Ite(aEnd, c.Not(bEnd), c.Ite(bEnd, c.False, c.Ite(c.Ult(ai, bi), c.True, c.Ite(c.Ult(bi, ai), c.False, res))))
	}
	return res
}

func (ex *Exec) strConcat(a, b StrV) StrV {
	c := ex.Ctx
	if a.Conc && b.Conc {
		return conStr(a.S + b.S)
	}
	ac, al := ex.strParts(a)
	bc, bl := ex.strParts(b)
	if al.IsConst() {
		n := int(al.V)
		cells := append(append([]*Term(nil), ac[:n]...), bc...)
		return ex.mkStr(cells, c.Add(al, bl))
	}
	// symbolic split point
	total := len(ac) + len(bc)
	cells := make([]*Term, total)
	for i := 0; i < total; i++ {
		ii := ex.i64(int64(i))
		// from b at index i-al
		bidx := c.Sub(ii, al)
		var bv *Term = c.BV(8, 0)
		for j := len(bc) - 1; j >= 0; j-- {
			if j > i {
				continue
			}
			bv = c.Ite(c.Eq(bidx, ex.i64(int64(j))), bc[j], bv)
		}
		if i < len(ac) {
			cells[i] = c.Ite(c.Slt(ii, al), ac[i], bv)
		} else {
			cells[i] = bv
		}
	}
	return ex.mkStr(cells, c.Add(al, bl))
}

// ---- slices ----

// sliceArr returns the backing array of s.
func (st *State) sliceArr(s SliceV) ArrayV {
	if s.Obj == 0 {
		return nil
	}
	arr, ok := getPath(st.obj(s.Obj).Val, s.Path).(ArrayV)
	if !ok {
		panic(abort{"internal", "slice backing is not an array"})
	}
	return arr
}

// ubLen returns a concrete upper bound for positions reachable from s.
func (st *State) ubLen(s SliceV, t *Term) int {
	if t.IsConst() {
		return int(signed64(64, t.V))
	}
	arr := st.sliceArr(s)
	if s.Off.IsConst() {
		return len(arr) - int(s.Off.V)
	}
	return len(arr)
}

// sliceCells returns the first n elements view of slice s as values (position i = element i).
// For symbolic offsets the elements are ite-selects (terms only).
func (st *State) sliceCells(s SliceV, n int) []Value {
	if n == 0 || s.Obj == 0 {
		return nil
	}
	c := st.ex.Ctx
	arr := st.sliceArr(s)
	out := make([]Value, n)
	if s.Off.IsConst() {
		off := int(s.Off.V)
		for i := 0; i < n; i++ {
			if off+i < len(arr) {
				out[i] = arr[off+i]
			} else {
				out[i] = arr[len(arr)-1]
			}
		}
		return out
	}
	for i := 0; i < n; i++ {
		out[i] = st.selectCell(arr, c.Add(s.Off, st.ex.i64(int64(i))))
	}
	return out
}

func (st *State) termCells(s SliceV, n int) []*Term {
	vs := st.sliceCells(s, n)
	out := make([]*Term, len(vs))
	for i, v := range vs {
		t, ok := v.(*Term)
		if !ok {
			panic(abort{"internal", fmt.Sprintf("termCells on %T", v)})
		}
		out[i] = t
	}
	return out
}

// newArrayObj allocates a backing array of n elements.
func (st *State) newArrayObj(elem types.Type, n int) int {
	a := make(ArrayV, n)
	if n > 0 {
		z := st.ex.zero(elem)
		for i := range a {
			a[i] = z
		}
	}
	return st.alloc(a, types.NewArray(elem, int64(n)))
}

func (st *State) sliceFromValues(elem types.Type, vals []Value) SliceV {
	a := make(ArrayV, len(vals))
	copy(a, vals)
	id := st.alloc(a, types.NewArray(elem, int64(len(vals))))
	n := st.ex.i64(int64(len(vals)))
	return SliceV{Obj: id, Off: st.ex.i64(0), Len: n, Cap: n}
}

func (st *State) bytesFromStr(s StrV) SliceV {
	cells, ln := st.ex.strParts(s)
	a := make(ArrayV, len(cells))
	for i, c := range cells {
		a[i] = c
	}
	id := st.alloc(a, nil)
	return SliceV{Obj: id, Off: st.ex.i64(0), Len: ln, Cap: ln}
}

func (st *State) strFromBytes(s SliceV) StrV {
	s = st.simpSlice(s)
	if s.Obj == 0 {
		return conStr("")
	}
	n := st.ubLen(s, s.Len)
	if n < 0 {
		n = 0
	}
	return st.ex.mkStr(st.termCells(s, n), s.Len)
}

// maxFeasible finds the largest feasible value of t (unsigned, ≤ limit) on this path.
func (st *State) maxFeasible(t *Term, limit int) int {
	if t.IsConst() {
		return int(t.V)
	}
	c := st.ex.Ctx
	lo, hi := 0, limit // invariant: some value ≥ lo feasible
	base := st.slicePC(t)
	for lo < hi {
		mid := (lo + hi + 1) / 2
		q := append(append([]*Term(nil), base...), c.Ule(c.BV(t.W, uint64(mid)), t), c.Ule(t, c.BV(t.W, uint64(limit))))
		r, _ := st.ex.check(q, nil)
		if r == Sat || r == Unknown {
			lo = mid
		} else {
			hi = mid - 1
		}
	}
	return lo
}

func (ex *Exec) objCap() int {
	if v, ok := ex.Bounds["obj_cap"]; ok {
		return v
	}
	return 128
}

func (ex *Exec) allocLimit() int {
	if v, ok := ex.Bounds["alloc_limit"]; ok {
		return v
	}
	return 1 << 16
}

func (ex *Exec) makeSlice(st *State, t types.Type, ln, cp *Term, lt, ct types.Type) Value {
	c := ex.Ctx
	elem := t.Underlying().(*types.Slice).Elem()
	ln = ex.toInt64(ln, lt)
	cp = ex.toInt64(cp, ct)
	if !(ln.IsConst() && cp.IsConst()) {
		// Go panics for negative or absurd sizes; in between it really allocates
		st.need(c.Sle(ex.i64(0), ln), "makeslice: len out of range")
		st.need(c.Sle(ln, cp), "makeslice: cap out of range")
		if !st.decide(c.Sle(cp, ex.i64(int64(ex.allocLimit())))) {
			if !st.decide(c.Sle(cp, ex.i64(1<<40))) {
				ex.runtimePanic("makeslice: len out of range")
			}
			ex.wildAlloc(st, cp)
		}
	} else {
		if signed64(64, ln.V) < 0 || signed64(64, cp.V) < signed64(64, ln.V) {
			ex.runtimePanic("makeslice: len out of range")
		}
		if int64(cp.V) > 1<<22 {
			ex.wildAlloc(st, cp)
		}
	}
	n := st.maxFeasible(cp, ex.allocLimit())
	if !cp.IsConst() && n > ex.objCap() {
		// physical cells are capped; an access beyond the cap ends the path as an unwinding failure
		n = ex.objCap()
	}
	if n > 1<<16 {
		panic(abort{"unwind", fmt.Sprintf("makeslice with %d elements exceeds the engine's object bound", n)})
	}
	id := st.newArrayObj(elem, n)
	return SliceV{Obj: id, Off: ex.i64(0), Len: ln, Cap: cp}
}

// wildAlloc records an allocation whose size is not bounded by the harness's limit.
func (ex *Exec) wildAlloc(st *State, n *Term) {
	// prefer a counterexample the native replay can survive (<= 2^20 elements instead of up to 2^40)
	if small := ex.Ctx.Sle(n, ex.i64(1<<20)); !n.IsConst() && st.feasible(small) == Sat {
		st.addPC(small)
	}
	ex.fail(st, "alloc/proportional", ex.Ctx.True)
	st.status = Infeasible
	panic(abort{"stop", "wild allocation"})
}

func (ex *Exec) toInt64(t *Term, typ types.Type) *Term {
	_, signed, ok := intInfo(typ)
	if !ok {
		signed = true
	}
	return ex.Ctx.Resize(t, 64, signed)
}

func (ex *Exec) indexAddr(st *State, x Value, idx *Term, it types.Type, xt types.Type) Value {
	c := ex.Ctx
	idx = ex.toInt64(idx, it)
	switch v := x.(type) {
	case Ptr: // pointer to array
		if v.IsNil() {
			ex.runtimePanic("invalid memory address or nil pointer dereference")
		}
		v = st.concPtr(v)
		n := xt.Underlying().(*types.Pointer).Elem().Underlying().(*types.Array).Len()
		st.need(c.Ult(idx, ex.i64(n)), "index out of range")
		if v.RT != nil {
			// (*[N]T)(unsafe.Pointer(&bytes[k]))[i]: element i starts at byte k + i*sizeof(T)
			at, ok := v.RT.Underlying().(*types.Array)
			if !ok || len(v.Path) == 0 {
				unsupported("indexing a reinterpreted pointer of type %s", v.RT)
			}
			w, _, isInt := intInfo(at.Elem())
			if !isInt {
				unsupported("reinterpreted array of %s", at.Elem())
			}
			i := int(st.constInt(idx, "index into reinterpreted array"))
			np := append([]int(nil), v.Path...)
			np[len(np)-1] += i * (w / 8)
			return Ptr{Obj: v.Obj, Path: np, RT: at.Elem()}
		}
		if idx.IsConst() {
			return Ptr{Obj: v.Obj, Path: appendPath(v.Path, int(idx.V))}
		}
		return Ptr{Obj: v.Obj, Path: v.Path, Sym: idx}
	case SliceV:
		v = st.simpSlice(v)
		idx = st.simp(idx)
		st.need(c.Ult(idx, v.Len), "index out of range")
		pos := c.Add(v.Off, idx)
		if pos.IsConst() {
			if int(pos.V) >= len(st.sliceArr(v)) {
				panic(abort{"unwind", fmt.Sprintf("access to element %d beyond the engine's physical object bound", pos.V)})
			}
			return Ptr{Obj: v.Obj, Path: appendPath(v.Path, int(pos.V))}
		}
		return Ptr{Obj: v.Obj, Path: v.Path, Sym: pos}
	}
	panic(abort{"internal", fmt.Sprintf("indexAddr on %T", x)})
}

func (ex *Exec) index(st *State, x Value, idx *Term, it types.Type) Value {
	c := ex.Ctx
	idx = ex.toInt64(idx, it)
	switch v := x.(type) {
	case ArrayV:
		st.need(c.Ult(idx, ex.i64(int64(len(v)))), "index out of range")
		return st.selectCell(v, idx)
	case StrV:
		cells, ln := ex.strParts(v)
		st.need(c.Ult(idx, ln), "index out of range")
		if idx.IsConst() {
			return cells[idx.V]
		}
		a := make(ArrayV, len(cells))
		for i, t := range cells {
			a[i] = t
		}
		return st.selectCell(a, idx)
	}
	panic(abort{"internal", fmt.Sprintf("index on %T", x)})
}

func (ex *Exec) sliceOp(st *State, fr *Frame, in *ssa.Slice) Value {
	c := ex.Ctx
	x := st.get(fr, in.X)
	opt := func(v ssa.Value) *Term {
		if v == nil {
			return nil
		}
		return ex.toInt64(st.get(fr, v).(*Term), v.Type())
	}
	lo, hi, max := st.simp(opt(in.Low)), st.simp(opt(in.High)), st.simp(opt(in.Max))
	if sv, ok := x.(SliceV); ok {
		x = st.simpSlice(sv)
	}
	if lo == nil {
		lo = ex.i64(0)
	}
	switch v := x.(type) {
	case StrV:
		cells, ln := ex.strParts(v)
		if hi == nil {
			hi = ln
		}
		st.need(c.Ule(hi, ln), "slice bounds out of range")
		st.need(c.Ule(lo, hi), "slice bounds out of range")
		if v.Conc && lo.IsConst() && hi.IsConst() {
			return conStr(v.S[lo.V:hi.V])
		}
		nl := c.Sub(hi, lo)
		if lo.IsConst() {
			return ex.mkStr(cells[lo.V:], nl)
		}
		a := make(ArrayV, len(cells))
		for i, t := range cells {
			a[i] = t
		}
		out := make([]*Term, len(cells))
		for i := range out {
			out[i] = st.selectCell(a, c.Add(lo, ex.i64(int64(i)))).(*Term)
		}
		return ex.mkStr(out, nl)
	case Ptr: // pointer to array
		if v.IsNil() {
			ex.runtimePanic("invalid memory address or nil pointer dereference")
		}
		v = st.concPtr(v)
		n := ex.i64(in.X.Type().Underlying().(*types.Pointer).Elem().Underlying().(*types.Array).Len())
		if hi == nil {
			hi = n
		}
		if max == nil {
			max = n
		}
		st.need(c.Ule(max, n), "slice bounds out of range")
		st.need(c.Ule(hi, max), "slice bounds out of range")
		st.need(c.Ule(lo, hi), "slice bounds out of range")
		return SliceV{Obj: v.Obj, Path: v.Path, Off: lo, Len: c.Sub(hi, lo), Cap: c.Sub(max, lo)}
	case SliceV:
		if hi == nil {
			hi = v.Len
		}
		if max == nil {
			max = v.Cap
		}
		st.need(c.Ule(max, v.Cap), "slice bounds out of range")
		st.need(c.Ule(hi, max), "slice bounds out of range")
		st.need(c.Ule(lo, hi), "slice bounds out of range")
		if v.Obj == 0 {
			return ex.nilSlice()
		}
		return SliceV{Obj: v.Obj, Path: v.Path, Off: c.Add(v.Off, lo), Len: c.Sub(hi, lo), Cap: c.Sub(max, lo)}
	}
	panic(abort{"internal", fmt.Sprintf("slice of %T", x)})
}

// ---- arithmetic ----

func fbits(w int, t *Term) float64 {
	if w == 32 {
		return float64(math.Float32frombits(uint32(t.V)))
	}
	return math.Float64frombits(t.V)
}

func (ex *Exec) fval(w int, f float64) *Term {
	if w == 32 {
		return ex.Ctx.BV(32, uint64(math.Float32bits(float32(f))))
	}
	return ex.Ctx.BV(64, math.Float64bits(f))
}

func (ex *Exec) floatBinop(op token.Token, w int, x, y *Term) Value {
	c := ex.Ctx
	if !x.IsConst() || !y.IsConst() {
		// bit-level equality is NOT float equality (NaN, ±0): only identical-term shortcuts are sound
		unsupported("floating point %s on symbolic operands", op)
	}
	a, b := fbits(w, x), fbits(w, y)
	switch op {
	case token.ADD:
		return ex.fval(w, a+b)
	case token.SUB:
		return ex.fval(w, a-b)
	case token.MUL:
		return ex.fval(w, a*b)
	case token.QUO:
		return ex.fval(w, a/b)
	case token.EQL:
		return c.Bool(a == b)
	case token.NEQ:
		return c.Bool(a != b)
	case token.LSS:
		return c.Bool(a < b)
	case token.LEQ:
		return c.Bool(a <= b)
	case token.GTR:
		return c.Bool(a > b)
	case token.GEQ:
		return c.Bool(a >= b)
	}
	unsupported("float op %s", op)
	return nil
}

func (ex *Exec) mul(a, b *Term) *Term {
	if ex.Spec != nil && ex.Spec.AbstractMul && a.W == 64 && !(a.IsConst() && b.IsConst()) {
		if a.IsConst() && (a.V == 0 || a.V == 1) || b.IsConst() && (b.V == 0 || b.V == 1) {
			return ex.Ctx.Mul(a, b)
		}
		if a.ID > b.ID {
			a, b = b, a
		}
		return ex.Ctx.UF("mul64", 64, a, b)
	}
	return ex.Ctx.Mul(a, b)
}

func (ex *Exec) binop(st *State, op token.Token, xt types.Type, x, y Value, yt types.Type) Value {
	c := ex.Ctx
	if w, ok := isFloat(xt); ok {
		return ex.floatBinop(op, w, x.(*Term), y.(*Term))
	}
	if w, signed, ok := intInfo(xt); ok {
		a, b := x.(*Term), y.(*Term)
		switch op {
		case token.ADD:
			return c.Add(a, b)
		case token.SUB:
			return c.Sub(a, b)
		case token.MUL:
			return ex.mul(a, b)
		case token.QUO, token.REM:
			st.need(c.Not(c.Eq(b, c.BV(w, 0))), "integer divide by zero")
			if signed {
				if op == token.QUO {
					return c.SDiv(a, b)
				}
				return c.SRem(a, b)
			}
			if op == token.QUO {
				return c.UDiv(a, b)
			}
			return c.URem(a, b)
		case token.AND:
			return c.BAnd(a, b)
		case token.OR:
			return c.BOr(a, b)
		case token.XOR:
			return c.BXor(a, b)
		case token.AND_NOT:
			return c.BAnd(a, c.BNot(b))
		case token.SHL, token.SHR:
			bw, bsigned, _ := intInfo(yt)
			if bsigned {
				st.need(c.Sle(c.BV(bw, 0), b), "negative shift amount")
			}
			// bring count to width w, saturating
			var cnt *Term
			if bw <= w {
				cnt = c.ZExt(b, w-bw)
			} else {
				big := c.Ule(c.BV(bw, uint64(w)), b)
				cnt = c.Ite(big, c.BV(w, uint64(w)), c.Extract(b, w-1, 0))
			}
			if op == token.SHL {
				return c.Shl(a, cnt)
			}
			if signed {
				return c.AShr(a, cnt)
			}
			return c.LShr(a, cnt)
		case token.EQL:
			return c.Eq(a, b)
		case token.NEQ:
			return c.Not(c.Eq(a, b))
		case token.LSS:
			if signed {
				return c.Slt(a, b)
			}
			return c.Ult(a, b)
		case token.LEQ:
			if signed {
				return c.Sle(a, b)
			}
			return c.Ule(a, b)
		case token.GTR:
			if signed {
				return c.Slt(b, a)
			}
			return c.Ult(b, a)
		case token.GEQ:
			if signed {
				return c.Sle(b, a)
			}
			return c.Ule(b, a)
		}
		unsupported("int op %s", op)
	}
	if isString(xt) {
		a, b := x.(StrV), y.(StrV)
		switch op {
		case token.ADD:
			return ex.strConcat(a, b)
		case token.EQL:
			return ex.strEq(a, b)
		case token.NEQ:
			return c.Not(ex.strEq(a, b))
		case token.LSS:
			return ex.strLess(a, b)
		case token.GTR:
			return ex.strLess(b, a)
		case token.LEQ:
			return c.Not(ex.strLess(b, a))
		case token.GEQ:
			return c.Not(ex.strLess(a, b))
		}
	}
	if isBool(xt) {
		a, b := x.(*Term), y.(*Term)
		switch op {
		case token.EQL:
			return c.Eq(a, b)
		case token.NEQ:
			return c.Not(c.Eq(a, b))
		case token.AND: // not produced by SSA but harmless
			return c.And(a, b)
		case token.OR:
			return c.Or(a, b)
		}
	}
	switch op {
	case token.EQL:
		return ex.valueEq(st, x, y)
	case token.NEQ:
		return c.Not(ex.valueEq(st, x, y))
	}
	unsupported("binop %s on %s", op, xt)
	return nil
}

// valueEq is Go's == on comparable values.
func (ex *Exec) valueEq(st *State, x, y Value) *Term {
	c := ex.Ctx
	switch a := x.(type) {
	case nil:
		switch b := y.(type) {
		case nil:
			return c.True
		default:
			return ex.valueEq(st, b, nil)
		}
	case *Term:
		b, ok := y.(*Term)
		if !ok {
			return c.False
		}
		if a.W != b.W {
			return c.False
		}
		return c.Eq(a, b)
	case Ptr:
		b, ok := y.(Ptr)
		if !ok {
			if y == nil {
				return c.Bool(a.IsNil())
			}
			return c.False
		}
		if a.Obj != b.Obj {
			return c.False
		}
		if a.Sym != nil || b.Sym != nil {
			// normalise both to (base path, index term)
			norm := func(p Ptr) ([]int, *Term, bool) {
				if p.Sym != nil {
					return p.Path, p.Sym, true
				}
				if len(p.Path) == 0 {
					return nil, nil, false
				}
				return p.Path[:len(p.Path)-1], c.BV(64, uint64(p.Path[len(p.Path)-1])), true
			}
			pa, ia, ok1 := norm(a)
			pb, ib, ok2 := norm(b)
			if !ok1 || !ok2 || !samePath(pa, pb) {
				return c.False
			}
			return c.Eq(ia, ib)
		}
		if !samePath(a.Path, b.Path) {
			return c.False
		}
		return c.True
	case StrV:
		b, ok := y.(StrV)
		if !ok {
			return c.False
		}
		return ex.strEq(a, b)
	case StructV:
		b, ok := y.(StructV)
		if !ok || len(a) != len(b) {
			return c.False
		}
		res := c.True
		for i := range a {
			res = c.And(res, ex.valueEq(st, a[i], b[i]))
		}
		return res
	case ArrayV:
		b, ok := y.(ArrayV)
		if !ok || len(a) != len(b) {
			return c.False
		}
		res := c.True
		for i := range a {
			res = c.And(res, ex.valueEq(st, a[i], b[i]))
		}
		return res
	case IfaceV:
		b, ok := y.(IfaceV)
		if !ok {
			if y == nil {
				return c.Bool(a.T == nil)
			}
			return c.False
		}
		if a.T == nil || b.T == nil {
			return c.Bool(a.T == nil && b.T == nil)
		}
		if !types.Identical(a.T, b.T) {
			return c.False
		}
		if !types.Comparable(a.T) {
			ex.runtimePanic("comparing uncomparable type " + a.T.String())
		}
		return ex.valueEq(st, a.V, b.V)
	case SliceV:
		if b, ok := y.(SliceV); ok && (a.Obj == 0 || b.Obj == 0) {
			return c.Bool(a.Obj == 0 && b.Obj == 0)
		}
		if y == nil {
			return c.Bool(a.Obj == 0)
		}
	case MapV:
		if b, ok := y.(MapV); ok {
			return c.Bool(a.Obj == b.Obj)
		}
		if y == nil {
			return c.Bool(a.Obj == 0)
		}
	case ChanV:
		if b, ok := y.(ChanV); ok {
			return c.Bool(a.Obj == b.Obj)
		}
		if y == nil {
			return c.Bool(a.Obj == 0)
		}
	case FuncV:
		if b, ok := y.(FuncV); ok && (a.IsNil() || b.IsNil()) {
			return c.Bool(a.IsNil() && b.IsNil())
		}
		if y == nil {
			return c.Bool(a.IsNil())
		}
	case RTypeV:
		if b, ok := y.(RTypeV); ok {
			return c.Bool(types.Identical(a.T, b.T))
		}
		return c.False
	case BigV:
		if b, ok := y.(BigV); ok {
			return c.And(c.Eq(a.Neg, b.Neg), c.Eq(a.Mag, b.Mag))
		}
	}
	unsupported("comparison of %T and %T", x, y)
	return nil
}

// ---- conversions ----

func (ex *Exec) convert(st *State, x Value, from, to types.Type) Value {
	c := ex.Ctx
	fu, tu := from.Underlying(), to.Underlying()
	if fw, fsigned, ok := intInfo(fu); ok {
		t := x.(*Term)
		if tw, _, ok := intInfo(tu); ok {
			_ = fw
			return c.Resize(t, tw, fsigned)
		}
		if tw, ok := isFloat(tu); ok {
			if !t.IsConst() {
				unsupported("int to float conversion of symbolic value")
			}
			if fsigned {
				return ex.fval(tw, float64(signed64(fw, t.V)))
			}
			return ex.fval(tw, float64(t.V))
		}
		if isString(tu) {
			if !t.IsConst() {
				// a symbolic code point that the path condition confines to ASCII is a one-byte string
				if fw >= 8 && st.decide(c.Ult(t, c.BV(fw, 0x80))) {
					return ex.mkStr([]*Term{c.Extract(t, 7, 0)}, ex.i64(1))
				}
				unsupported("string(int) of symbolic value outside ASCII")
			}
			r := rune(signed64(fw, t.V))
			if fsigned && (signed64(fw, t.V) < 0 || signed64(fw, t.V) > utf8.MaxRune) {
				r = utf8.RuneError
			}
			if !fsigned && t.V > utf8.MaxRune {
				r = utf8.RuneError
			}
			return conStr(string(r))
		}
		if b, ok := tu.(*types.Basic); ok && b.Kind() == types.UnsafePointer {
			if t.IsConst() && t.V == 0 {
				return Ptr{}
			}
			unsupported("uintptr to unsafe.Pointer")
		}
	}
	if fw, ok := isFloat(fu); ok {
		t := x.(*Term)
		if tw, ok := isFloat(tu); ok {
			if tw == fw {
				return t
			}
			if !t.IsConst() {
				unsupported("float width conversion of symbolic value")
			}
			return ex.fval(tw, fbits(fw, t))
		}
		if tw, tsigned, ok := intInfo(tu); ok {
			if !t.IsConst() {
				unsupported("float to int conversion of symbolic value")
			}
			f := fbits(fw, t)
			if tsigned {
				return c.BV(tw, uint64(int64(f)))
			}
			return c.BV(tw, uint64(f))
		}
	}
	if isString(fu) {
		s := x.(StrV)
		if isString(tu) {
			return s
		}
		if sl, ok := tu.(*types.Slice); ok {
			eb, _ := sl.Elem().Underlying().(*types.Basic)
			if eb != nil && eb.Kind() == types.Uint8 {
				return st.bytesFromStr(s)
			}
			if eb != nil && eb.Kind() == types.Int32 {
				if !s.Conc {
					unsupported("[]rune of symbolic string")
				}
				var vals []Value
				for _, r := range s.S {
					vals = append(vals, c.BV(32, uint64(r)))
				}
				return st.sliceFromValues(sl.Elem(), vals)
			}
		}
	}
	if sl, ok := fu.(*types.Slice); ok {
		if isString(tu) {
			eb, _ := sl.Elem().Underlying().(*types.Basic)
			if eb != nil && eb.Kind() == types.Uint8 {
				return st.strFromBytes(x.(SliceV))
			}
			if eb != nil && eb.Kind() == types.Int32 {
				s := x.(SliceV)
				n := int(st.constInt(s.Len, "rune slice len"))
				var rs []rune
				for _, v := range st.termCells(s, n) {
					if !v.IsConst() {
						unsupported("string([]rune) of symbolic runes")
					}
					rs = append(rs, rune(v.V))
				}
				return conStr(string(rs))
			}
		}
		if _, ok := tu.(*types.Slice); ok {
			return x
		}
		if pa, ok := tu.(*types.Pointer); ok {
			_ = pa
			unsupported("slice to array pointer conversion via Convert")
		}
	}
	// pointer <-> unsafe.Pointer
	if _, ok := fu.(*types.Pointer); ok {
		if b, ok := tu.(*types.Basic); ok && b.Kind() == types.UnsafePointer {
			return x
		}
	}
	if b, ok := fu.(*types.Basic); ok && b.Kind() == types.UnsafePointer {
		p := x.(Ptr)
		if pt, ok := tu.(*types.Pointer); ok {
			if p.IsNil() {
				return p
			}
			// reinterpretation of byte memory as a wider integer
			cur := st.peekType(p)
			if cur != nil && types.Identical(cur, pt.Elem()) {
				p.RT = nil
				return p
			}
			p.RT = pt.Elem()
			return p
		}
		if _, _, ok := intInfo(tu); ok {
			if p.IsNil() {
				return c.BV(64, 0)
			}
			unsupported("unsafe.Pointer to uintptr")
		}
	}
	if types.Identical(fu, tu) {
		return x
	}
	unsupported("conversion from %s to %s", from, to)
	return nil
}

// peekType returns the static type of the cell p points to, if known.
func (st *State) peekType(p Ptr) types.Type {
	o := st.obj(p.Obj)
	t := o.Typ
	if t == nil {
		return nil
	}
	for _, i := range p.Path {
		switch u := t.Underlying().(type) {
		case *types.Struct:
			t = u.Field(i).Type()
		case *types.Array:
			t = u.Elem()
		default:
			return nil
		}
	}
	if p.Sym != nil {
		if a, ok := t.Underlying().(*types.Array); ok {
			return a.Elem()
		}
		return nil
	}
	return t
}

// loadReinterp reads an integer of type p.RT from consecutive byte cells (little endian).
func (st *State) loadReinterp(p Ptr, o *HObj) Value {
	c := st.ex.Ctx
	w, _, ok := intInfo(p.RT)
	if !ok {
		unsupported("unsafe reinterpretation as %s", p.RT)
	}
	if p.Sym != nil {
		p = st.concPtr(Ptr{Obj: p.Obj, Path: p.Path, Sym: p.Sym})
	}
	if len(p.Path) == 0 {
		unsupported("unsafe reinterpretation of whole object")
	}
	base := p.Path[:len(p.Path)-1]
	start := p.Path[len(p.Path)-1]
	arr, ok := getPath(o.Val, base).(ArrayV)
	if !ok {
		unsupported("unsafe reinterpretation of non-array memory")
	}
	n := w / 8
	if start+n > len(arr) {
		// reading past the object: undefined behaviour in Go
		st.ex.fail(st, "unsafe/read-out-of-object", c.True)
		panic(abort{"stop", "unsafe read past object"})
	}
	var res *Term
	for i := n - 1; i >= 0; i-- {
		b, ok := arr[start+i].(*Term)
		if !ok || b.W != 8 {
			unsupported("unsafe reinterpretation of non-byte cells")
		}
		if res == nil {
			res = b
		} else {
			res = c.Concat(res, b)
		}
	}
	return res
}

func (st *State) storeReinterp(p Ptr, o *HObj, v Value) {
	unsupported("store through reinterpreted unsafe pointer")
}

// ---- type assertions ----

func (ex *Exec) typeAssert(st *State, in *ssa.TypeAssert, x Value) Value {
	c := ex.Ctx
	iv, ok := x.(IfaceV)
	if !ok {
		panic(abort{"internal", fmt.Sprintf("type assert on %T", x)})
	}
	var okv bool
	var res Value
	if _, isIface := in.AssertedType.Underlying().(*types.Interface); isIface {
		if iv.T != nil {
			okv = ex.implements(iv.T, in.AssertedType)
		}
		if okv {
			res = iv
		} else {
			res = IfaceV{}
		}
	} else {
		okv = iv.T != nil && types.Identical(iv.T, in.AssertedType)
		if okv {
			res = iv.V
		} else {
			res = ex.zero(in.AssertedType)
		}
	}
	if in.CommaOk {
		return TupleV{res, c.Bool(okv)}
	}
	if !okv {
		msg := "interface conversion: interface is nil, not " + in.AssertedType.String()
		if iv.T != nil {
			msg = "interface conversion: " + iv.T.String() + " is not " + in.AssertedType.String()
		}
		// *runtime.TypeAssertionError is a runtime.Error
		ex.runtimePanic(msg)
	}
	return res
}

func (ex *Exec) implements(t types.Type, iface types.Type) bool {
	it := iface.Underlying().(*types.Interface)
	if _, isRT := t.(*rtypeMarker); isRT {
		return true
	}
	return types.Implements(t, it)
}
