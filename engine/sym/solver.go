package sym

import (
	"strconv"
	"bufio"
	"fmt"
	"io"
	"math/big"
	"os"
	"os/exec"
	"strings"
	"time"
)

var resetAfter = func() int {
	if v, err := strconv.Atoi(os.Getenv("VERIF_RESET_AFTER")); err == nil {
		return v
	}
	return 3000
}()

var qlog = os.Getenv("VERIF_QLOG") != ""

type Result int

const (
	Unsat Result = iota
	Sat
	Unknown
)

func (r Result) String() string { return [...]string{"unsat", "sat", "unknown"}[r] }

// Solver is one long-lived SMT solver process fed through stdin.
type Solver struct {
	ctx     *Ctx
	kind    string // z3 | z3-new | cvc5 | cvc5-int
	cmd     *exec.Cmd
	in      io.WriteCloser
	out     *bufio.Reader
	defined map[int]bool
	declUF  map[string]bool
	Resets  int
	Queries int
	Time    time.Duration
	Errors  []string
	timeout time.Duration
	log     io.Writer
	dead    bool
}

func solverArgv(kind string, timeout time.Duration) []string {
	ms := int(timeout / time.Millisecond)
	switch kind {
	case "z3":
		return []string{"z3", "-in", fmt.Sprintf("-t:%d", ms)}
	case "z3-new":
		return []string{"z3-new", "-in", fmt.Sprintf("-t:%d", ms)}
	case "cvc5":
		return []string{"cvc5", "--incremental", "--lang=smt2", fmt.Sprintf("--tlimit-per=%d", ms), "--produce-models"}
	case "cvc5-int":
		return []string{"cvc5", "--incremental", "--lang=smt2", "--solve-bv-as-int=sum", fmt.Sprintf("--tlimit-per=%d", ms), "--produce-models"}
	}
	panic("unknown solver kind " + kind)
}

func NewSolver(ctx *Ctx, kind string, timeout time.Duration) (*Solver, error) {
	s := &Solver{ctx: ctx, kind: kind, defined: map[int]bool{}, declUF: map[string]bool{}, timeout: timeout}
	if err := s.start(); err != nil {
		return nil, err
	}
	return s, nil
}

func (s *Solver) start() error {
	argv := solverArgv(s.kind, s.timeout)
	s.cmd = exec.Command(argv[0], argv[1:]...)
	in, err := s.cmd.StdinPipe()
	if err != nil {
		return err
	}
	out, err := s.cmd.StdoutPipe()
	if err != nil {
		return err
	}
	s.cmd.Stderr = os.Stderr
	if err := s.cmd.Start(); err != nil {
		return err
	}
	s.in = in
	s.out = bufio.NewReaderSize(out, 1<<16)
	if d := os.Getenv("VERIF_SOLVERLOG"); d != "" {
		f, _ := os.Create(fmt.Sprintf("%s/%s-%d.smt2", d, s.kind, time.Now().UnixNano()))
		s.log = f
	}
	s.defined = map[int]bool{}
	s.declUF = map[string]bool{}
	s.dead = false
	if strings.HasPrefix(s.kind, "cvc5") {
		s.send("(set-logic ALL)\n")
	}
	s.send("(set-option :produce-models true)\n")
	return nil
}

func (s *Solver) Close() {
	if s.cmd != nil && !s.dead {
		s.in.Close()
		s.cmd.Process.Kill()
		s.cmd.Wait()
		s.dead = true
	}
}

func (s *Solver) SetLog(w io.Writer) { s.log = w }

func (s *Solver) send(txt string) {
	if s.log != nil {
		io.WriteString(s.log, txt)
	}
	io.WriteString(s.in, txt)
}

// define emits declarations/definitions for t and everything below it.
func (s *Solver) define(sb *strings.Builder, t *Term) {
	if s.defined[t.ID] {
		return
	}
	// iterative post-order
	type item struct {
		t *Term
		i int
	}
	stack := []item{{t, 0}}
	for len(stack) > 0 {
		top := &stack[len(stack)-1]
		if s.defined[top.t.ID] {
			stack = stack[:len(stack)-1]
			continue
		}
		if top.i < len(top.t.Args) {
			a := top.t.Args[top.i]
			top.i++
			if !s.defined[a.ID] {
				stack = append(stack, item{a, 0})
			}
			continue
		}
		u := top.t
		stack = stack[:len(stack)-1]
		s.defined[u.ID] = true
		switch u.Op {
		case OpConst:
		case OpVar:
			fmt.Fprintf(sb, "(declare-const %s %s)\n", smtName(u.Name), sortStr(u.W))
		default:
			if u.Op == OpUF && !s.declUF[u.Name] {
				s.declUF[u.Name] = true
				sig := s.ctx.UFSigs[u.Name]
				var args []string
				for _, w := range sig[:len(sig)-1] {
					args = append(args, sortStr(w))
				}
				fmt.Fprintf(sb, "(declare-fun %s (%s) %s)\n", smtName(u.Name), strings.Join(args, " "), sortStr(sig[len(sig)-1]))
			}
			fmt.Fprintf(sb, "(define-fun t%d () %s %s)\n", u.ID, sortStr(u.W), u.smtShallow())
		}
	}
}

func (s *Solver) readLine() (string, error) {
	line, err := s.out.ReadString('\n')
	return strings.TrimSpace(line), err
}

// Check decides satisfiability of the conjunction. When sat and wantModel lists
// terms, their values are returned.
func (s *Solver) Check(assertions []*Term, wantModel []*Term) (Result, map[int]*big.Int) {
	for _, a := range assertions {
		if a.IsFalse() {
			return Unsat, nil
		}
	}
	if s.dead {
		if err := s.start(); err != nil {
			s.Errors = append(s.Errors, err.Error())
			return Unknown, nil
		}
	}
	start := time.Now()
	var resForLog Result = Unknown
	defer func() {
		d := time.Since(start)
		s.Time += d
		s.Queries++
		if qlog && d > 300*time.Millisecond {
			fmt.Fprintf(os.Stderr, "qlog %s %.2fs %s (%d assertions)\n", s.kind, d.Seconds(), resForLog, len(assertions))
		}
	}()
	var sb strings.Builder
	if len(s.defined) > resetAfter || (strings.HasPrefix(s.kind, "cvc5") && len(s.defined) > 0) {
		// cvc5's incremental mode degrades badly with int-blasting (queries that take 0.02 s fresh
		// come back unknown after a few dozen earlier push/pops): every cvc5 query starts from (reset)
		// solvers slow down as global definitions pile up: start a fresh context
		sb.WriteString("(reset)\n")
		if strings.HasPrefix(s.kind, "cvc5") {
			sb.WriteString("(set-logic ALL)\n")
		}
		sb.WriteString("(set-option :produce-models true)\n")
		s.defined = map[int]bool{}
		s.declUF = map[string]bool{}
		s.Resets++
	}
	for _, a := range assertions {
		s.define(&sb, a)
	}
	for _, a := range wantModel {
		s.define(&sb, a)
	}
	sb.WriteString("(push 1)\n")
	for _, a := range assertions {
		if a.IsTrue() {
			continue
		}
		fmt.Fprintf(&sb, "(assert %s)\n", a.ref())
	}
	sb.WriteString("(check-sat)\n")
	s.send(sb.String())
	res := Unknown
	for {
		line, err := s.readLine()
		if err != nil {
			s.Errors = append(s.Errors, "solver died: "+err.Error())
			s.Close()
			return Unknown, nil
		}
		if line == "" {
			continue
		}
		switch {
		case line == "sat":
			res = Sat
		case line == "unsat":
			res = Unsat
		case line == "unknown" || line == "timeout":
			res = Unknown
		case strings.HasPrefix(line, "(error"):
			s.Errors = append(s.Errors, line)
			// an error may precede the verdict; the verdict is then untrusted
			// drain until verdict
			for {
				l2, err := s.readLine()
				if err != nil || l2 == "sat" || l2 == "unsat" || l2 == "unknown" {
					break
				}
			}
			s.send("(pop 1)\n")
			return Unknown, nil
		default:
			s.Errors = append(s.Errors, "unexpected solver output: "+line)
			continue
		}
		break
	}
	resForLog = res
	var model map[int]*big.Int
	if res == Sat && len(wantModel) > 0 {
		model = map[int]*big.Int{}
		var q strings.Builder
		q.WriteString("(get-value (")
		n := 0
		for _, t := range wantModel {
			if t.IsConst() {
				model[t.ID] = t.constBig()
				continue
			}
			q.WriteString(t.ref() + " ")
			n++
		}
		q.WriteString("))\n")
		if n > 0 {
			s.send(q.String())
			txt := s.readSexp()
			vals := parseGetValue(txt)
			i := 0
			for _, t := range wantModel {
				if t.IsConst() {
					continue
				}
				if i < len(vals) {
					model[t.ID] = vals[i]
				}
				i++
			}
			if len(vals) != n {
				s.Errors = append(s.Errors, fmt.Sprintf("get-value returned %d values, wanted %d: %.200s", len(vals), n, txt))
			}
		}
	}
	s.send("(pop 1)\n")
	if res == Unknown && strings.HasPrefix(s.kind, "cvc5") {
		// cvc5 may be left in a bad state after a timeout; restart lazily
		s.Close()
	}
	return res, model
}

// readSexp reads one balanced s-expression from the solver.
func (s *Solver) readSexp() string {
	var sb strings.Builder
	depth := 0
	started := false
	inBar := false
	for {
		b, err := s.out.ReadByte()
		if err != nil {
			return sb.String()
		}
		sb.WriteByte(b)
		if b == '|' {
			inBar = !inBar
		}
		if inBar {
			continue
		}
		if b == '(' {
			depth++
			started = true
		} else if b == ')' {
			depth--
			if started && depth == 0 {
				return sb.String()
			}
		}
	}
}

// parseGetValue extracts the values, in order, from "((t1 #x..) (t2 (_ bv5 8)) (t3 true))".
func parseGetValue(txt string) []*big.Int {
	var vals []*big.Int
	// tokenise
	toks := tokenize(txt)
	// structure: ( ( name value ) ( name value ) ... ) where name may be an s-expr too
	pos := 0
	var parse func() interface{}
	parse = func() interface{} {
		if pos >= len(toks) {
			return nil
		}
		t := toks[pos]
		pos++
		if t == "(" {
			var l []interface{}
			for pos < len(toks) && toks[pos] != ")" {
				l = append(l, parse())
			}
			pos++
			return l
		}
		return t
	}
	root, _ := parse().([]interface{})
	for _, p := range root {
		pair, ok := p.([]interface{})
		if !ok || len(pair) != 2 {
			continue
		}
		vals = append(vals, sexpValue(pair[1]))
	}
	return vals
}

func sexpValue(v interface{}) *big.Int {
	switch x := v.(type) {
	case string:
		switch {
		case x == "true":
			return big.NewInt(1)
		case x == "false":
			return big.NewInt(0)
		case strings.HasPrefix(x, "#x"):
			r, _ := new(big.Int).SetString(x[2:], 16)
			return r
		case strings.HasPrefix(x, "#b"):
			r, _ := new(big.Int).SetString(x[2:], 2)
			return r
		}
	case []interface{}:
		// (_ bvN w)
		if len(x) == 3 {
			if s, ok := x[1].(string); ok && strings.HasPrefix(s, "bv") {
				r, _ := new(big.Int).SetString(s[2:], 10)
				return r
			}
		}
	}
	return big.NewInt(0)
}

func tokenize(txt string) []string {
	var toks []string
	i := 0
	for i < len(txt) {
		ch := txt[i]
		switch {
		case ch == '(' || ch == ')':
			toks = append(toks, string(ch))
			i++
		case ch == ' ' || ch == '\n' || ch == '\t' || ch == '\r':
			i++
		case ch == '|':
			j := i + 1
			for j < len(txt) && txt[j] != '|' {
				j++
			}
			toks = append(toks, txt[i:j+1])
			i = j + 1
		default:
			j := i
			for j < len(txt) && !strings.ContainsRune("() \n\t\r", rune(txt[j])) {
				j++
			}
			toks = append(toks, txt[i:j])
			i = j
		}
	}
	return toks
}

// Dump writes a stand-alone SMT-LIB2 script for the conjunction.
func (c *Ctx) Dump(assertions []*Term) string {
	tmp := &Solver{ctx: c, defined: map[int]bool{}, declUF: map[string]bool{}}
	var sb strings.Builder
	for _, a := range assertions {
		tmp.define(&sb, a)
	}
	for _, a := range assertions {
		fmt.Fprintf(&sb, "(assert %s)\n", a.ref())
	}
	sb.WriteString("(check-sat)\n")
	return sb.String()
}

// OneShot runs a stand-alone script on a solver kind with a timeout.
func OneShot(kind string, script string, timeout time.Duration) Result {
	argv := solverArgv(kind, timeout)
	cmd := exec.Command(argv[0], argv[1:]...)
	pre := ""
	if strings.HasPrefix(kind, "cvc5") {
		pre = "(set-logic ALL)\n"
	}
	cmd.Stdin = strings.NewReader(pre + script)
	done := make(chan struct{})
	var out []byte
	go func() {
		out, _ = cmd.Output()
		close(done)
	}()
	select {
	case <-done:
	case <-time.After(timeout + 5*time.Second):
		if cmd.Process != nil {
			cmd.Process.Kill()
		}
		<-done
		return Unknown
	}
	txt := string(out)
	if strings.Contains(txt, "(error") {
		return Unknown
	}
	for _, l := range strings.Split(txt, "\n") {
		l = strings.TrimSpace(l)
		if l == "sat" {
			return Sat
		}
		if l == "unsat" {
			return Unsat
		}
	}
	return Unknown
}
