// ssasym: symbolic execution of go/ssa + SMT for the gocql properties.
package main

import (
	"encoding/json"
	"flag"
	"fmt"
	"os"
	"path/filepath"
	"runtime"
	"sort"
	"strconv"
	"strings"
	"time"

	"ssasym/sym"
)

func env(k, d string) string {
	if v := os.Getenv(k); v != "" {
		return v
	}
	return d
}

func main() {
	if len(os.Args) < 2 {
		fmt.Fprintln(os.Stderr, "usage: ssasym check <ID> <quick|thorough> | run -spec f.json [-only e] | replay <file>")
		os.Exit(2)
	}
	switch os.Args[1] {
	case "check":
		os.Exit(cmdCheck(os.Args[2:]))
	case "run":
		os.Exit(cmdRun(os.Args[2:]))
	case "replay":
		os.Exit(cmdReplay(os.Args[2:]))
	}
	fmt.Fprintln(os.Stderr, "unknown command", os.Args[1])
	os.Exit(2)
}

func cmdRun(args []string) int {
	fs := flag.NewFlagSet("run", flag.ExitOnError)
	spec := fs.String("spec", "", "spec file")
	only := fs.String("only", "", "entry name filter")
	tier := fs.String("tier", "quick", "tier")
	trace := fs.Bool("trace", false, "trace instructions")
	workers := fs.Int("j", runtime.NumCPU(), "workers")
	fs.Parse(args)
	root := env("VERIF_ROOT", "/verif")
	out, err := sym.Run(sym.RunConfig{Repo: env("VERIF_REPO", "/repo"), Harness: filepath.Join(root, "harness"), SpecFile: *spec,
		Tier: *tier, Workers: *workers, Only: *only, Trace: *trace, KnownFile: filepath.Join(root, "known_findings.json")})
	if err != nil {
		fmt.Fprintln(os.Stderr, "error:", err)
		return 2
	}
	for _, r := range out.Results {
		r.Fns = nil
		r.Sample = ""
	}
	b, _ := json.MarshalIndent(out.Results, "", " ")
	fmt.Println(string(b))
	fmt.Fprintf(os.Stderr, "load %.1fs total %.1fs\n", out.LoadS, out.WallS)
	return 0
}

type evidence struct {
	PropertyID  string                 `json:"property_id"`
	Tier        string                 `json:"tier"`
	Seed        int                    `json:"seed"`
	Level       string                 `json:"level"`
	Coverage    map[string]interface{} `json:"coverage"`
	Assumptions []string               `json:"assumptions"`
	WallS       float64                `json:"wall_s"`
	Violations  int                    `json:"violations"`
}

func cmdCheck(args []string) int {
	if len(args) < 1 {
		fmt.Fprintln(os.Stderr, "usage: ssasym check <ID> [quick|thorough]")
		return 2
	}
	id := args[0]
	tier := env("VERIF_TIER", "quick")
	if len(args) > 1 {
		tier = args[1]
	}
	seed, _ := strconv.Atoi(env("VERIF_SEED", "0"))
	root := env("VERIF_ROOT", "/verif")
	repo := env("VERIF_REPO", "/repo")
	workers := runtime.NumCPU()
	if w, err := strconv.Atoi(os.Getenv("VERIF_WORKERS")); err == nil && w > 0 {
		workers = w
	}
	t0 := time.Now()
	cfg := sym.RunConfig{Repo: repo, Harness: filepath.Join(root, "harness"), SpecFile: filepath.Join(root, "harness", id+".json"),
		Tier: tier, Workers: workers, Only: os.Getenv("VERIF_ONLY"), KnownFile: filepath.Join(root, "known_findings.json")}
	out, err := sym.Run(cfg)
	evPath := filepath.Join(env("VERIF_EVIDENCE_DIR", filepath.Join(root, "evidence")), id+".json")
	if err != nil {
		fmt.Fprintln(os.Stderr, "ssasym: error:", err)
		writeEvidence(evPath, &evidence{PropertyID: id, Tier: tier, Seed: seed, Level: "model_checking",
			Coverage: map[string]interface{}{"explanation": "engine error, nothing was explored: " + err.Error(), "states": 0, "transitions": 0, "traces_validated_against_impl": 0,
				"obligations": 0, "discharged": 0, "samples": []interface{}{map[string]interface{}{"note": "engine error before any path was explored"}}, "inconclusive": []string{err.Error()}},
			Assumptions: []string{}, WallS: time.Since(t0).Seconds()})
		return 2
	}
	// replay counterexamples natively
	rep := sym.NewReplayer(repo, root, id)
	defer rep.Cleanup()
	inconclusive := []string{}
	var violations, knownHits []sym.Counterexample
	validated := 0
	for _, r := range out.Results {
		if r.Aborted > 0 {
			inconclusive = append(inconclusive, fmt.Sprintf("%s: %d aborted paths: %s", r.Entry, r.Aborted, strings.Join(r.Aborts, " | ")))
		}
		for l, s := range r.Labels {
			if s.Unknown > 0 {
				inconclusive = append(inconclusive, fmt.Sprintf("%s: %d unknown solver verdicts at %s", r.Entry, s.Unknown, l))
			}
		}
		if r.Done == 0 && r.Aborted == 0 && len(r.CEX) == 0 && r.OtherShards == 0 {
			inconclusive = append(inconclusive, fmt.Sprintf("%s: vacuous (no path completed: %d panicked, %d blocked, %d infeasible)", r.Entry, r.Panicked, r.Blocked, r.Infeasible))
		}
		if len(r.SolverErrors) > 0 {
			inconclusive = append(inconclusive, fmt.Sprintf("%s: solver errors: %s", r.Entry, strings.Join(r.SolverErrors, "; ")))
		}
	}
	// native replays: every counterexample, plus witness models for translator validation
	rep.Prepare(out)
	for _, r := range out.Results {
		for i := range r.CEX {
			cx := &r.CEX[i]
			rep.Confirm(cx)
			switch {
			case cx.Replayed == "not-reproduced":
				inconclusive = append(inconclusive, fmt.Sprintf("%s: counterexample at %s did not reproduce natively (engine/stub error)", r.Entry, cx.Label))
			case cx.Known != "":
				knownHits = append(knownHits, *cx)
			default:
				violations = append(violations, *cx)
			}
		}
		ok, bad := rep.ValidateWitness(r)
		validated += ok
		for _, b := range bad {
			inconclusive = append(inconclusive, fmt.Sprintf("%s: translator validation mismatch: %s", r.Entry, b))
		}
	}
	// evidence
	ev := buildEvidence(id, tier, seed, out, validated, violations, knownHits, inconclusive)
	ev.WallS = time.Since(t0).Seconds()
	writeEvidence(evPath, ev)
	// report
	seenK := map[string]bool{}
	for _, k := range knownHits {
		if seenK[k.Known] {
			continue
		}
		seenK[k.Known] = true
		fmt.Printf("KNOWN-FINDING: property=%s %s (%s)\n", id, sym.KnownDescription(k.Known), k.Label)
	}
	for _, v := range violations {
		fmt.Printf("VIOLATION property=%s replay=%s label=%s entry=%s\n", id, v.ReplayFile, v.Label, v.Entry)
	}
	for _, m := range inconclusive {
		fmt.Printf("INCONCLUSIVE property=%s %s\n", id, m)
	}
	tot, dis := 0, 0
	paths := 0
	for _, r := range out.Results {
		tot += r.Obligations
		dis += r.Discharged
		paths += r.Paths
	}
	fmt.Printf("%s %s: %d entries, %d paths, %d/%d obligations discharged, %d known findings, %d violations, %d inconclusive, %.1fs\n",
		id, tier, len(out.Results), paths, dis, tot, len(seenK), len(violations), len(inconclusive), time.Since(t0).Seconds())
	if len(violations) > 0 {
		return 1
	}
	if len(inconclusive) > 0 {
		return 2
	}
	return 0
}

func writeEvidence(path string, ev *evidence) {
	os.MkdirAll(filepath.Dir(path), 0o755)
	b, _ := json.MarshalIndent(ev, "", " ")
	os.WriteFile(path, append(b, '\n'), 0o644)
}

func buildEvidence(id, tier string, seed int, out *sym.RunOutput, validated int, viol, known []sym.Counterexample, inconcl []string) *evidence {
	states, trans, obl, dis, paths, queries := 0, 0, 0, 0, 0, 0
	crossOK, crossUnk, crossBad := 0, 0, 0
	solver := map[string]float64{}
	fnset := map[string]bool{}
	var samples []interface{}
	var entries []interface{}
	labels := map[string]*sym.LabelStat{}
	for _, r := range out.Results {
		states += r.States
		trans += r.Steps
		obl += r.Obligations
		dis += r.Discharged
		paths += r.Paths
		queries += r.Queries
		crossOK += r.CrossChecked
		crossUnk += r.CrossUnknown
		crossBad += r.CrossDisagree
		for k, v := range r.SolverS {
			solver[k] += v
		}
		for _, f := range r.Fns {
			fnset[f] = true
		}
		for l, s := range r.Labels {
			a, ok := labels[l]
			if !ok {
				a = &sym.LabelStat{}
				labels[l] = a
			}
			a.Reached += s.Reached
			a.Trivial += s.Trivial
			a.Discharged += s.Discharged
			a.Failed += s.Failed
			a.Unknown += s.Unknown
			a.FailedNotSolved += s.FailedNotSolved
		}
		if len(samples) < 6 && r.Witness != nil {
			samples = append(samples, map[string]interface{}{"entry": r.Entry, "bounds": r.Bounds, "witness_model": r.Witness, "observations": r.WitnessObs, "discharged_obligation_smt2": r.Sample})
		}
		entries = append(entries, map[string]interface{}{"entry": r.Entry, "bounds": r.Bounds, "paths": r.Paths, "done": r.Done, "panicked": r.Panicked, "blocked": r.Blocked,
			"infeasible": r.Infeasible, "aborted": r.Aborted, "obligations": r.Obligations, "discharged": r.Discharged, "queries": r.Queries, "wall_s": r.WallS, "max_fork_depth": r.MaxDepth})
	}
	if len(samples) == 0 {
		samples = append(samples, map[string]interface{}{"note": "no completed path produced a witness"})
	}
	var fns []string
	for f := range fnset {
		if strings.Contains(f, "gocql") || len(fnset) < 200 {
			fns = append(fns, f)
		}
	}
	sort.Strings(fns)
	var kn []interface{}
	for _, k := range known {
		kn = append(kn, map[string]interface{}{"id": k.Known, "label": k.Label, "entry": k.Entry, "model": k.Model, "replayed": k.Replayed})
	}
	var vs []interface{}
	for _, v := range viol {
		vs = append(vs, map[string]interface{}{"label": v.Label, "entry": v.Entry, "model": v.Model, "replayed": v.Replayed, "replay": v.ReplayFile, "where": v.Where, "detail": v.Detail})
	}
	if states < 1 {
		states = 1
	}
	if trans < 1 {
		trans = 1
	}
	cov := map[string]interface{}{
		"states": states, "transitions": trans, "traces_validated_against_impl": validated, "samples": samples,
		"obligations": obl, "discharged": dis, "paths": paths, "solver_queries": queries, "solver_s": solver,
		"functions_encoded": fns, "entries": entries, "labels": labels, "known_findings_matched": kn, "violations": vs,
		"inconclusive": inconcl, "exhaustive": false,
		"cross_checked_by_second_solver": crossOK, "cross_check_undecided": crossUnk, "cross_check_disagreements": crossBad,
		"explanation": "states = symbolic states created; transitions = SSA instructions executed symbolically; every obligation is pathcondition ∧ ¬assertion sent to an SMT solver; unsat = holds for every input within the bounds listed per entry",
	}
	notes := out.Spec.Notes
	if notes == nil {
		notes = []string{}
	}
	return &evidence{PropertyID: id, Tier: tier, Seed: seed, Level: "model_checking", Coverage: cov,
		Assumptions: notes, Violations: len(viol)}
}

func cmdReplay(args []string) int {
	if len(args) < 1 {
		fmt.Fprintln(os.Stderr, "usage: ssasym replay <file>")
		return 2
	}
	root := env("VERIF_ROOT", "/verif")
	repo := env("VERIF_REPO", "/repo")
	rep := sym.NewReplayer(repo, root, "replay")
	defer rep.Cleanup()
	outp, err := rep.RunFile(args[0])
	fmt.Print(outp)
	if err != nil {
		fmt.Fprintln(os.Stderr, err)
		return 2
	}
	if strings.Contains(outp, "VFAIL") || strings.Contains(outp, "VPANIC") {
		return 1
	}
	return 0
}
